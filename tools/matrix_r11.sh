#!/bin/bash
# round 11 (L01..L05, two changes each): quick check of the property named in the author's notes
OUT=/verif/.work/matrix_r11.txt
: > $OUT
export MIRROR=/tmp/mutwork
for d in /verif/seeded/L*-[XY]; do
  n=$(basename $d); p=$(head -1 $d/author_notes.md | grep -oE 'C[0-9]{2}' | head -1)
  echo "== $n ($p)" >> $OUT
  /verif/tools/mirror_mutant.sh $d/patch.diff $p >> $OUT 2>&1
done
echo MATRIX-DONE >> $OUT

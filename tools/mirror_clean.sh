#!/bin/bash
# usage: mirror_clean.sh <check id>...   (like mirror_mutant.sh, without a patch: the unchanged tree)
M=${MIRROR:-/tmp/mutwork}
mkdir -p $M
if [ ! -d $M/repo ]; then git -C /repo worktree add --detach $M/repo HEAD >/dev/null 2>&1 || exit 2; fi
git -C $M/repo checkout -q --detach $(git -C /repo rev-parse HEAD) && git -C $M/repo checkout -q -- . || exit 2
mkdir -p $M/verif
rsync -a --delete --exclude .git --exclude .work --exclude harness/target --exclude evidence ${VERIF_SRC:-/verif}/ $M/verif/
mkdir -p $M/verif/evidence
sed -i "s|path = \"/repo\"|path = \"$M/repo\"|" $M/verif/harness/Cargo.toml
sed -i "s|^REPO = \"/repo\"|REPO = \"$M/repo\"|" $M/verif/vlib/common.py
cd $M/verif
for id in "$@"; do
  s=$(date +%s); out=$(./check $id --tier ${TIER:-quick} --seed ${SEED:-1} 2>&1); rc=$?
  echo "$id rc=$rc t=$(( $(date +%s)-s ))s $(echo "$out" | grep -E 'VIOLATION|KNOWN-FINDING|TOOL-ERROR|DRIFT|law' | head -3 | cut -c1-300 | tr '\n' ' ')"
done

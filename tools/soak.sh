#!/bin/bash
# usage: soak.sh <out> <tier> <seed>... — runs every registered check (or those in $CHECKS) with the given seeds on the current tree
OUT=$1; TIER=$2; shift 2
cd "$(dirname "$0")/.."
: > $OUT
for seed in "$@"; do
  for c in ${CHECKS:-C01 C02 C03 C04 C05 C06 C07 C08 C09 C10 C11 C12 C13 C14 C15 C16 C17 C18}; do
    t0=$(date +%s)
    o=$(VERIF_SEED=$seed ./check $c --tier $TIER 2>&1); rc=$?
    t1=$(date +%s)
    echo "seed=$seed $c rc=$rc t=$((t1-t0))s $(echo "$o" | grep -E 'VIOLATION|TOOL-ERROR|DRIFT|UNCONFIRMED|KNOWN' | head -3 | cut -c1-300 | tr '\n' ' ')" >> $OUT
  done
done
echo SOAK-DONE >> $OUT

#!/bin/bash
# usage: mirror_mutant.sh <patch.diff> <check id>...
# Runs the quick checks against a seeded change WITHOUT touching /repo: a scratch worktree of
# /repo (/tmp/mutwork/repo) gets the patch, and a scratch copy of /verif (/tmp/mutwork/verif)
# whose harness points at that worktree runs the checks.  For experiments only (so that a soak
# of /verif against /repo can run at the same time); the registered checks always use /repo.
P=$(readlink -f "$1"); shift
M=${MIRROR:-/tmp/mutwork}
mkdir -p $M
if [ ! -d $M/repo ]; then git -C /repo worktree add --detach $M/repo HEAD >/dev/null 2>&1 || exit 2; fi
git -C $M/repo checkout -q --detach $(git -C /repo rev-parse HEAD) && git -C $M/repo checkout -q -- . || exit 2
mkdir -p $M/verif
rsync -a --delete --exclude .git --exclude .work --exclude harness/target --exclude evidence ${VERIF_SRC:-/verif}/ $M/verif/
mkdir -p $M/verif/evidence
sed -i "s|path = \"/repo\"|path = \"$M/repo\"|" $M/verif/harness/Cargo.toml
sed -i "s|^REPO = \"/repo\"|REPO = \"$M/repo\"|" $M/verif/vlib/common.py
git -C $M/repo apply --check "$P" 2>/dev/null || { echo "PATCH-DOES-NOT-APPLY $P"; exit 3; }
git -C $M/repo apply "$P"
cd $M/verif
for id in "$@"; do
  out=$(./check $id --tier ${TIER:-quick} 2>/dev/null); rc=$?
  echo "$id rc=$rc $(echo "$out" | grep -E 'VIOLATION|KNOWN-FINDING|TOOL-ERROR|law' | head -4 | tr '\n' ' ')"
done
git -C $M/repo checkout -q -- .

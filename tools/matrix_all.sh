#!/bin/bash
# every seeded change x the quick check of its own property, through the mirror (does not touch /repo)
OUT=/verif/.work/matrix_all.txt
: > $OUT
for d in /verif/seeded/C*-[A-Z]; do
  n=$(basename $d); p=${n%-*}
  echo "== $n" >> $OUT
  /verif/tools/mirror_mutant.sh $d/patch.diff $p >> $OUT 2>&1
done
echo MATRIX-DONE >> $OUT

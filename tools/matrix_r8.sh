#!/bin/bash
# round 8 (property-targeted, I01..I18 = C01..C18, two changes each): quick check of the property
OUT=/verif/.work/matrix_r8.txt
: > $OUT
export MIRROR=/tmp/mutwork2
for d in /verif/seeded/I*-[XY]; do
  n=$(basename $d); p=C${n:1:2}
  echo "== $n ($p)" >> $OUT
  /verif/tools/mirror_mutant.sh $d/patch.diff $p >> $OUT 2>&1
done
echo MATRIX-DONE >> $OUT

#!/bin/bash
# release-profile / feature-dependent confirmations of round 9
WT=/tmp/mut/confirm
OUT=/verif/.work/confirm9_rel.txt
: > $OUT
export CARGO_NET_OFFLINE=true
cd $WT || exit 2
for cv in J01-X J02-Y; do
  D=/verif/seeded/$cv
  git checkout -q -- . ; rm -f tests/zz_demo.rs
  git apply $D/patch.diff || { echo "$cv PATCH-DOES-NOT-APPLY" >> $OUT; continue; }
  s=$(CARGO_TARGET_DIR=$WT/target cargo test --offline --release 2>&1 | grep -E "^test result" | grep -vc "ok\.")
  cp $D/demo.rs tests/zz_demo.rs
  w=$(CARGO_TARGET_DIR=$WT/target cargo test --offline --release --test zz_demo 2>&1 | grep -E "^test result" | head -1)
  git checkout -q -- src
  wo=$(CARGO_TARGET_DIR=$WT/target cargo test --offline --release --test zz_demo 2>&1 | grep -E "^test result" | head -1)
  rm -f tests/zz_demo.rs
  echo "$cv --release suite_nonok=$s | with: $w | without: $wo" >> $OUT
done
export CARGO_TARGET_DIR=$WT/target-miri MIRIFLAGS="-Zmiri-ignore-leaks -Zmiri-many-seeds=0..4"
for cv in J01-Y; do
  D=/verif/seeded/$cv
  git checkout -q -- . ; rm -f tests/zz_demo.rs
  git apply $D/patch.diff || { echo "$cv PATCH-DOES-NOT-APPLY" >> $OUT; continue; }
  cp $D/demo.rs tests/zz_demo.rs
  w=$(timeout 1800 cargo +nightly miri test --offline --features extra-platforms --test zz_demo 2>&1 | grep -cE "Undefined Behavior")
  git checkout -q -- src
  wo=$(timeout 1800 cargo +nightly miri test --offline --features extra-platforms --test zz_demo 2>&1 | grep -cE "Undefined Behavior")
  rm -f tests/zz_demo.rs
  echo "$cv miri --features extra-platforms | UB reports with: $w | without: $wo" >> $OUT
done
echo DONE >> $OUT

#!/bin/bash
# round 2: runs, for every seeded change <id>-C, the quick check of its target property
OUT=/verif/.work/matrix4.txt
: > $OUT
for d in /verif/seeded/C*-D; do
  n=$(basename $d); p=${n%-*}
  echo "== $n" >> $OUT
  /verif/tools/try_mutant.sh $d/patch.diff $p >> $OUT 2>&1
done
echo MATRIX-DONE >> $OUT

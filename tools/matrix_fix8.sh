#!/bin/bash
# round 8: the changes missed on the first run, re-run with the strengthened checks
OUT=/verif/.work/matrix_fix8.txt
: > $OUT
export MIRROR=/tmp/mutwork2
for n in I02-X I03-X I05-Y I06-X I06-Y I08-X I08-Y I11-X I15-X I16-Y I17-Y I18-Y; do
  d=/verif/seeded/$n; p=C${n:1:2}
  echo "== $n ($p)" >> $OUT
  /verif/tools/mirror_mutant.sh $d/patch.diff $p >> $OUT 2>&1
done
echo MATRIX-DONE >> $OUT

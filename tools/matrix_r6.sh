#!/bin/bash
# round 6 (rare-state changes G01..G12 x {X,Y}): quick check of the property named in the author's notes
OUT=/verif/.work/matrix_r6.txt
: > $OUT
export MIRROR=/tmp/mutwork2
for d in /verif/seeded/G*-[XY]; do
  n=$(basename $d); p=$(head -1 $d/author_notes.md | grep -oE "C[0-9][0-9]" | head -1)
  echo "== $n ($p)" >> $OUT
  /verif/tools/mirror_mutant.sh $d/patch.diff $p >> $OUT 2>&1
done
echo MATRIX-DONE >> $OUT

#!/bin/bash
# runs, for every seeded change, the quick check of its target property (and extra checks given after --)
OUT=/verif/.work/matrix2.txt
: > $OUT
for d in /verif/seeded/C*; do
  n=$(basename $d); p=${n%-*}
  echo "== $n" >> $OUT
  /verif/tools/try_mutant.sh $d/patch.diff $p >> $OUT 2>&1
done
echo MATRIX-DONE >> $OUT

#!/bin/bash
# usage: matrix.sh <outfile> <checks...> -- <mutant dirs...>
OUT=$1; shift
CH=(); while [ "$1" != "--" ]; do CH+=("$1"); shift; done; shift
: > $OUT
for m in "$@"; do
  echo "== $m" >> $OUT
  /verif/tools/try_mutant.sh $m/patch.diff "${CH[@]}" >> $OUT 2>&1
done
echo "MATRIX-DONE" >> $OUT

#!/bin/bash
# usage: try_mutant.sh <patch.diff> <check id>...   — apply a seeded change to /repo, run the
# quick checks, undo the change.  Never commits anything.
P=$1; shift
cd /repo || exit 2
if ! git diff --quiet; then echo "/repo has uncommitted changes"; exit 2; fi
git apply --check "$P" 2>/dev/null || { echo "PATCH-DOES-NOT-APPLY $P"; exit 3; }
git apply "$P"
trap 'git -C /repo checkout -- .' EXIT
cd /verif
for id in "$@"; do
  out=$(./check $id --tier ${TIER:-quick} 2>/dev/null); rc=$?
  echo "$id rc=$rc $(echo "$out" | grep -E 'VIOLATION|KNOWN-FINDING|TOOL-ERROR|law' | head -4 | tr '\n' ' ')"
done

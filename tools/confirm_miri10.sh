#!/bin/bash
WT=/tmp/mut/confirm
OUT=/verif/.work/confirm_miri10.txt
: > $OUT
export CARGO_TARGET_DIR=$WT/target-miri CARGO_NET_OFFLINE=true MIRIFLAGS="-Zmiri-ignore-leaks -Zmiri-many-seeds=0..4"
cd $WT || exit 2
for cv in K05-X; do
  D=/verif/seeded/$cv
  git checkout -q -- . ; rm -f tests/zz_demo.rs
  git apply $D/patch.diff || { echo "$cv PATCH-DOES-NOT-APPLY" >> $OUT; continue; }
  cp $D/demo.rs tests/zz_demo.rs
  with=$(timeout 1800 cargo +nightly miri test --offline --test zz_demo 2>&1 | grep -cE "Undefined Behavior")
  git checkout -q -- src
  without=$(timeout 1800 cargo +nightly miri test --offline --test zz_demo 2>&1 | grep -cE "Undefined Behavior")
  rm -f tests/zz_demo.rs
  echo "$cv | UB reports with: $with | without: $without" >> $OUT
done
echo MIRI-DONE >> $OUT

#!/bin/bash
# round 7 (structural blind spots H01..H06 x {X,Y}): quick check of the property named in the author's notes
OUT=/verif/.work/matrix_r7.txt
: > $OUT
export MIRROR=/tmp/mutwork2
for d in /verif/seeded/H*-[XY]; do
  n=$(basename $d); p=$(head -1 $d/author_notes.md | grep -oE "C[0-9][0-9]" | head -1)
  echo "== $n ($p)" >> $OUT
  /verif/tools/mirror_mutant.sh $d/patch.diff $p >> $OUT 2>&1
done
echo MATRIX-DONE >> $OUT

#!/bin/bash
WT=/tmp/mut/confirm
OUT=/verif/.work/confirm_miri.txt
: > $OUT
export CARGO_TARGET_DIR=$WT/target-miri CARGO_NET_OFFLINE=true MIRIFLAGS="-Zmiri-ignore-leaks"
cd $WT || exit 2
for cv in C05/B C06/A C06/B; do
  D=/tmp/mut/$cv; D=/tmp/mut/${cv%/*}/out/${cv#*/}
  git checkout -q -- . ; rm -f tests/zz_demo.rs
  git apply $D/patch.diff || { echo "$cv PATCH-DOES-NOT-APPLY" >> $OUT; continue; }
  cp $D/demo.rs tests/zz_demo.rs
  with=$(timeout 1500 cargo +nightly miri test --offline --test zz_demo 2>&1 | grep -E "Undefined Behavior|test result|error: test failed" | head -2 | tr '\n' ' ')
  git checkout -q -- src
  without=$(timeout 1500 cargo +nightly miri test --offline --test zz_demo 2>&1 | grep -E "Undefined Behavior|test result|error: test failed" | head -2 | tr '\n' ' ')
  rm -f tests/zz_demo.rs
  echo "$cv | with: $with | without: $without" >> $OUT
done
echo MIRI-DONE >> $OUT

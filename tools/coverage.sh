#!/bin/bash
# development aid: line coverage of /repo/src under the quick checks.
# usage: tools/coverage.sh <check id>...   (results: /tmp/vcov/report.txt, /tmp/vcov/uncovered.txt)
export VERIF_COV=/tmp/vcov
mkdir -p $VERIF_COV/prof
cd /verif
for c in "$@"; do ./check $c --tier quick >/dev/null 2>&1; echo "$c rc=$?"; done
BIN=$(dirname $(rustup which --toolchain nightly rustc))/../lib/rustlib/x86_64-unknown-linux-gnu/bin
$BIN/llvm-profdata merge -sparse $VERIF_COV/prof/*.profraw -o $VERIF_COV/all.profdata
OBJS=""
for b in $(find $VERIF_COV -maxdepth 3 -type f \( -name "vh-handles" -o -name "vh-buf" -o -name "vh-threads" -o -name "vh-pure" \) -perm -u+x); do OBJS="$OBJS -object $b"; done
$BIN/llvm-cov report $OBJS -instr-profile=$VERIF_COV/all.profdata /repo/src 2>/dev/null > $VERIF_COV/report.txt
$BIN/llvm-cov show $OBJS -instr-profile=$VERIF_COV/all.profdata /repo/src -show-line-counts-or-regions 2>/dev/null > $VERIF_COV/show.txt
cat $VERIF_COV/report.txt | cut -c1-160

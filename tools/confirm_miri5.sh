#!/bin/bash
WT=/tmp/mut/confirm
OUT=/verif/.work/confirm_miri5.txt
: > $OUT
export CARGO_TARGET_DIR=$WT/target-miri CARGO_NET_OFFLINE=true MIRIFLAGS="-Zmiri-ignore-leaks -Zmiri-many-seeds=0..6"
cd $WT || exit 2
for cv in F03/Y F05/X F05/Y F06/X F06/Y; do
  D=/tmp/mut/${cv%/*}/out/${cv#*/}
  git checkout -q -- . ; rm -f tests/zz_demo.rs
  git apply $D/patch.diff || { echo "$cv PATCH-DOES-NOT-APPLY" >> $OUT; continue; }
  cp $D/demo.rs tests/zz_demo.rs
  with=$(timeout 1800 cargo +nightly miri test --offline --test zz_demo 2>&1 | grep -E "Undefined Behavior|test result|error: test failed" | head -2 | tr '\n' ' ')
  git checkout -q -- src
  without=$(timeout 1800 cargo +nightly miri test --offline --test zz_demo 2>&1 | grep -E "Undefined Behavior|test result|error: test failed" | head -2 | tr '\n' ' ')
  rm -f tests/zz_demo.rs
  echo "$cv | with: $with | without: $without" >> $OUT
done
# release-only one
cv=F16/Y; D=/tmp/mut/F16/out/Y
export CARGO_TARGET_DIR=$WT/target
git checkout -q -- . ; git apply $D/patch.diff; cp $D/demo.rs tests/zz_demo.rs
with=$(cargo test --offline --release --test zz_demo 2>&1 | grep -E "^test result" | head -1)
git checkout -q -- src
without=$(cargo test --offline --release --test zz_demo 2>&1 | grep -E "^test result" | head -1)
rm -f tests/zz_demo.rs
echo "$cv (--release) | with: $with | without: $without" >> $OUT
echo MIRI-DONE >> $OUT

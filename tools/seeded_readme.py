#!/usr/bin/env python3
"""Regenerates /verif/seeded/README.md and every meta.json from
  - seeded/summaries.json (one line per change of rounds 2-4; round 1 keeps its own meta),
  - the author's notes (round 4: first line `PROPERTY: Cxx`),
  - the detection matrices in /verif/.work: matrix_all.txt (rounds 1-3, final code), matrix_r4.txt
    (round 4, first run), matrix_fix.txt (re-runs after strengthening), matrix3.txt / matrix4.txt
    (rounds 2 / 3, first run before strengthening).
Lines of a matrix: `== <id> ...` followed by `<check> rc=<n> ...`."""
import json, os, re, glob
V = os.path.dirname(os.path.dirname(os.path.abspath(__file__)))
W = os.path.join(V, ".work")


def parse(name):
    res = {}
    p = os.path.join(W, name)
    if not os.path.exists(p):
        p = os.path.join(V, "seeded", "matrices", name)      # the committed copies
    if not os.path.exists(p):
        return res
    cur = None
    for ln in open(p):
        m = re.match(r"== ([CEFGHIJKL]\d+-[A-Z])", ln)
        if m:
            cur = m.group(1)
            res.setdefault(cur, {})
            continue
        m = re.match(r"(C\d+) rc=(\d+)(.*)", ln)
        if m and cur:
            laws = sorted(set(re.findall(r"law(?:\(s\))? ([\w:,&\[\]\(\) ]+?) violated", m.group(3))))
            res[cur][m.group(1)] = (int(m.group(2)), laws)
    return res


final = parse("matrix_all.txt")
for k, v in parse("matrix_r4.txt").items():
    final[k] = v
for k, v in parse("matrix_r5.txt").items():
    final[k] = v
for k, v in parse("matrix_r6.txt").items():
    final[k] = v
for k, v in parse("matrix_r7.txt").items():
    final[k] = v
for k, v in parse("matrix_r8.txt").items():
    final[k] = v
for k, v in parse("matrix_r9.txt").items():
    final[k] = v
for k, v in parse("matrix_r10.txt").items():
    final[k] = v
for k, v in parse("matrix_r11.txt").items():
    final[k] = v
for name in ("matrix_fix.txt", "matrix_fix5.txt", "matrix_fix6.txt", "matrix_fix8.txt", "matrix_fix9.txt", "matrix_fix10.txt", "matrix_fix11.txt"):
    for k, v in parse(name).items():
        final.setdefault(k, {}).update(v)
first = {}
for name in ("matrix3.txt", "matrix4.txt", "matrix_r4.txt", "matrix_r5.txt", "matrix_r6.txt", "matrix_r7.txt", "matrix_r8.txt", "matrix_r9.txt", "matrix_r10.txt", "matrix_r11.txt"):
    for k, v in parse(name).items():
        first[k] = v
summ = json.load(open(os.path.join(V, "seeded", "summaries.json")))
rows = []
for d in sorted(os.listdir(os.path.join(V, "seeded"))):
    dd = os.path.join(V, "seeded", d)
    if not os.path.isdir(dd) or not os.path.exists(os.path.join(dd, "patch.diff")):
        continue
    mp = os.path.join(dd, "meta.json")
    meta = json.load(open(mp)) if os.path.exists(mp) else {}
    notes = open(os.path.join(dd, "author_notes.md")).read() if os.path.exists(os.path.join(dd, "author_notes.md")) else ""
    if d[0] in "EGHJKL":
        m = re.search(r"PROPERTY:\s*(C\d+)", notes)
        prop = m.group(1) if m else "?"
        rnd = {"E": 4, "G": 6, "H": 7, "J": 9, "K": 10, "L": 11}[d[0]]
    elif d[0] in "FI":
        prop = "C" + d[1:3]
        rnd = {"F": 5, "I": 8}[d[0]]
    else:
        prop = d.split("-")[0]
        rnd = {"A": 1, "B": 1, "C": 2, "D": 3}[d[-1]]
    meta.update({"id": d, "property": prop, "round": rnd})
    if d in summ:
        meta["breaks"] = summ[d]
        meta["needs_to_manifest"] = "see author_notes.md"
    meta["author"] = ("fresh sub-agent given only the text of %s, the ideas already used for it and a scratch worktree" % prop) if rnd < 4 or rnd in (5, 8) else \
        "fresh sub-agent given the text of the candidate properties, an area of the source to work in, the ideas already used and a scratch worktree"
    meta.setdefault("confirmed", {})
    meta["confirmed"].update({"worktree": "/tmp/mut/confirm at /repo HEAD 1078261 (removed afterwards)",
                              "commands": "git apply patch.diff; cargo test --offline (suite must pass, also --features serde where relevant); "
                                          "demo as tests/zz_demo.rs with the patch (must fail) and without it (must pass); C06-A/B/C and C05-B under cargo +nightly miri"})
    r = final.get(d, {})
    meta["detected_by"] = sorted(c for c, (rc, _) in r.items() if rc == 1)
    meta["missed_by"] = sorted(c for c, (rc, _) in r.items() if rc != 1)
    meta["detected_by_own_property"] = prop in meta["detected_by"]
    meta["first_laws"] = {c: l for c, (rc, l) in r.items() if rc == 1}
    f = first.get(d)
    if f is not None:
        own = f.get(prop)
        meta["first_run_before_strengthening"] = "detected" if own and own[0] == 1 else ("missed (see DESIGN.md section 16)" if own else "not run")
    meta["checks_run"] = ["./check %s --tier quick with the change applied (tools/try_mutant.sh on /repo, or tools/mirror_mutant.sh on a scratch mirror)" % c for c in sorted(r)]
    json.dump(meta, open(mp, "w"), indent=1)
    rows.append(meta)
with open(os.path.join(V, "seeded", "README.md"), "w") as f:
    f.write("# Seeded changes\n\nEach directory holds `patch.diff` (a change to tokio-rs/bytes that breaks one property while compiling and passing the "
            "pinned test suite), the author's demonstration `demo.rs` (fails with the change, passes without), `author_notes.md` and `meta.json`.\n"
            "All were written by fresh sub-agents (rounds 1-3: one property each, told which mechanisms were already used; round 4 `E..`: one area of the "
            "source each, two changes; rounds 5-11 `F..` - `L..` likewise, one property (F, I) or one area (G, H, J, K, L) per author); all were confirmed at /repo HEAD in a scratch worktree (pure memory-ordering changes only fail under Miri). "
            "None is ever committed to /repo.\n\n"
            "`./check selftest --seeded` re-applies each one and expects a VIOLATION from the first check listed under `detected_by`.\n"
            "Column *first run* says whether the quick check of the change's own property caught it before the checks were strengthened for that round "
            "(round 1 changes were used to build the checks in the first place).\n\n")
    f.write("| id | property | what it breaks | detected by (quick tier, final) | laws | first run |\n|---|---|---|---|---|---|\n")
    for m in rows:
        ls = "; ".join("%s: %s" % (c, ",".join(l)[:70]) for c, l in sorted(m["first_laws"].items()))
        f.write("| %s | %s | %s | %s | %s | %s |\n" % (m["id"], m["property"], m.get("breaks", ""), ", ".join(m["detected_by"]) or "—", ls,
                                                    m.get("first_run_before_strengthening", "")))
    n = len(rows)
    k = sum(1 for m in rows if m.get("detected_by_own_property"))
    f.write("\n%d of %d seeded changes are detected by the quick check of their own property.\n" % (k, n))
print("ok", len(rows))

#!/usr/bin/env python3
"""Regenerates /verif/seeded/README.md and the detected_by / missed_by fields of every
meta.json from the matrix outputs in /verif/.work/matrix*.txt (lines `== <id>` followed by
`<check> rc=<n> ...`)."""
import json, os, re, glob
V = os.path.dirname(os.path.dirname(os.path.abspath(__file__)))
res = {}
for f in sorted(glob.glob(os.path.join(V, ".work", "matrix2*.txt"))):
    cur = None
    for ln in open(f):
        m = re.match(r"== (C\d+-[AB])", ln)
        if m:
            cur = m.group(1)
            res.setdefault(cur, {})
            continue
        m = re.match(r"(C\d+) rc=(\d+)(.*)", ln)
        if m and cur:
            laws = sorted(set(re.findall(r"law(?:\(s\))? ([\w:,&\[\]\(\) ]+?) violated", m.group(3))))
            res[cur][m.group(1)] = (int(m.group(2)), laws)
rows = []
for d in sorted(os.listdir(os.path.join(V, "seeded"))):
    mp = os.path.join(V, "seeded", d, "meta.json")
    if not os.path.exists(mp):
        continue
    meta = json.load(open(mp))
    r = res.get(d, {})
    meta["detected_by"] = sorted(c for c, (rc, _) in r.items() if rc == 1)
    meta["missed_by"] = sorted(c for c, (rc, _) in r.items() if rc == 0)
    meta["first_laws"] = {c: l for c, (rc, l) in r.items() if rc == 1}
    meta["checks_run"] = ["./check %s --tier quick (via tools/try_mutant.sh: git -C /repo apply; check; git -C /repo checkout -- .)" % c for c in sorted(r)]
    json.dump(meta, open(mp, "w"), indent=1)
    rows.append((d, meta["property"], meta["breaks"], meta["detected_by"], meta["missed_by"], meta["first_laws"]))
with open(os.path.join(V, "seeded", "README.md"), "w") as f:
    f.write("# Seeded changes\n\nEach directory holds `patch.diff` (a change to tokio-rs/bytes that breaks one property while compiling and passing the "
            "pinned test suite), the author's demonstration `demo.rs` (fails with the change, passes without), `author_notes.md` and `meta.json`.\n"
            "All were written by fresh sub-agents that saw only the property text; all were confirmed at /repo HEAD in a scratch worktree "
            "(three pure memory-ordering changes only fail under Miri). None is ever committed to /repo.\n\n"
            "`./check selftest --seeded` re-applies each one and expects a VIOLATION from the first check listed under `detected_by`.\n\n")
    f.write("| id | property | what it breaks / needs | detected by (quick tier) | laws | not detected by |\n|---|---|---|---|---|---|\n")
    for (d, p, b, det, miss, laws) in rows:
        ls = "; ".join("%s: %s" % (c, ",".join(l)[:80]) for c, l in sorted(laws.items()))
        f.write("| %s | %s | %s | %s | %s | %s |\n" % (d, p, b, ", ".join(det) or "—", ls, ", ".join(miss) or ""))
    n = len(rows)
    k = sum(1 for r in rows if r[3])
    f.write("\n%d of %d seeded changes are detected by at least one quick check.\n" % (k, n))
print("ok")

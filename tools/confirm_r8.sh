#!/bin/bash
# round 4 (area-targeted): /tmp/mut/Exx/out/{X,Y}
WT=/tmp/mut/confirm
OUT=${OUT:-/verif/.work/confirm8.txt}
: > $OUT
export CARGO_TARGET_DIR=$WT/target CARGO_NET_OFFLINE=true
cd $WT || exit 2
for c in "$@"; do
  for v in X Y; do
    D=/tmp/mut/$c/out/$v
    [ -f $D/patch.diff ] || continue
    git checkout -q -- . ; rm -f tests/zz_demo.rs
    if ! git apply --check $D/patch.diff 2>/dev/null; then echo "$c/$v PATCH-DOES-NOT-APPLY" >> $OUT; continue; fi
    git apply $D/patch.diff
    FEAT=""
    grep -q "serde" $D/demo.rs && FEAT="--features serde"
    suite=$(cargo test --offline 2>&1 | grep -E "^test result" | grep -vc "ok\.")
    suite2=0
    [ -n "$FEAT" ] && suite2=$(cargo test --offline $FEAT 2>&1 | grep -E "^test result" | grep -vc "ok\.")
    cp $D/demo.rs tests/zz_demo.rs
    with=$(timeout 600 cargo test --offline $FEAT --test zz_demo 2>&1 | grep -E "^test result|signal|error: test failed" | head -1)
    git checkout -q -- src
    without=$(timeout 600 cargo test --offline $FEAT --test zz_demo 2>&1 | grep -E "^test result|signal|error: test failed" | head -1)
    rm -f tests/zz_demo.rs
    echo "$c/$v $(head -1 $D/notes.md) suite_nonok=$suite/$suite2 | with: $with | without: $without" >> $OUT
  done
done
echo CONFIRM-DONE >> $OUT

#!/bin/bash
# regression: seeded changes of earlier rounds whose detection came from the random driver, re-run on the final checks
# (the random programs of a seed change whenever the generator gains an operation)
OUT=/verif/.work/matrix_regress.txt
: > $OUT
export MIRROR=/tmp/mutwork2
for n in "$@"; do
  d=/verif/seeded/$n; p=$(python3 -c "import json;print(json.load(open('$d/meta.json'))['property'])")
  echo "== $n ($p)" >> $OUT
  /verif/tools/mirror_mutant.sh $d/patch.diff $p >> $OUT 2>&1
done
echo MATRIX-DONE >> $OUT

#!/bin/bash
# round 10 (area-targeted, K01..K06, two changes each): quick check of the property named in the author's notes
OUT=/verif/.work/matrix_r10.txt
: > $OUT
export MIRROR=/tmp/mutwork
for d in /verif/seeded/K*-[XY]; do
  n=$(basename $d); p=$(head -1 $d/author_notes.md | grep -oE 'C[0-9]{2}' | head -1)
  echo "== $n ($p)" >> $OUT
  /verif/tools/mirror_mutant.sh $d/patch.diff $p >> $OUT 2>&1
done
echo MATRIX-DONE >> $OUT

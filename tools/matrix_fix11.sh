#!/bin/bash
# round 11: the changes missed on the first run, re-run with the strengthened checks
OUT=/verif/.work/matrix_fix11.txt
: > $OUT
export MIRROR=/tmp/mutwork2
for n in ${LIST:-L02-X L04-X L04-Y L03-Y}; do
  d=/verif/seeded/$n; p=$(head -1 $d/author_notes.md | grep -oE 'C[0-9]{2}' | head -1)
  echo "== $n ($p)" >> $OUT
  /verif/tools/mirror_mutant.sh $d/patch.diff $p >> $OUT 2>&1
done
echo MATRIX-DONE >> $OUT

#!/bin/bash
# usage: confirm_mutant.sh <worktree> <A|B>   — confirms a seeded change in its scratch worktree:
#  suite passes with the patch, demo fails with it, demo passes without it.
WT=$1; V=$2; D=$WT/out/$V
export CARGO_TARGET_DIR=$WT/target CARGO_NET_OFFLINE=true
cd $WT || exit 2
git checkout -q -- src; rm -f tests/zz_demo.rs
git apply --check $D/patch.diff || { echo "PATCH-DOES-NOT-APPLY"; exit 3; }
git apply $D/patch.diff
suite=$(cargo test --offline 2>&1 | grep -E "^test result|error(\[|:)" | grep -v "ok\." | head -3)
cp $D/demo.rs tests/zz_demo.rs
with=$(cargo test --offline --test zz_demo 2>&1 | grep -E "^test result|error(\[|:)|signal|SIG" | head -3)
git checkout -q -- src
without=$(cargo test --offline --test zz_demo 2>&1 | grep -E "^test result|error(\[|:)|signal|SIG" | head -3)
rm -f tests/zz_demo.rs
echo "suite-with-patch(non-ok lines): [$suite]"
echo "demo-with-patch: [$with]"
echo "demo-without-patch: [$without]"

//! serde entry points of Bytes / BytesMut driven by a minimal Serializer / Deserializer.
use bytes::{Bytes, BytesMut};
use serde::de::{self, DeserializeSeed, SeqAccess, Visitor};
use serde::ser::{self, Impossible};
use serde::{Deserialize, Serialize};
use std::fmt::Write as _;

#[derive(Debug)]
pub struct Err(String);
impl std::fmt::Display for Err {
    fn fmt(&self, f: &mut std::fmt::Formatter<'_>) -> std::fmt::Result {
        f.write_str(&self.0)
    }
}
impl std::error::Error for Err {}
impl ser::Error for Err {
    fn custom<T: std::fmt::Display>(m: T) -> Self {
        Err(m.to_string())
    }
}
impl de::Error for Err {
    fn custom<T: std::fmt::Display>(m: T) -> Self {
        Err(m.to_string())
    }
}

/// captures what `Serialize` hands to `serialize_bytes`
struct Cap;
macro_rules! no {
    ($($f:ident($t:ty)),*) => { $( fn $f(self, _: $t) -> Result<Vec<u8>, Err> { Result::Err(Err("unexpected".into())) } )* };
}
impl ser::Serializer for Cap {
    type Ok = Vec<u8>;
    type Error = Err;
    type SerializeSeq = Impossible<Vec<u8>, Err>;
    type SerializeTuple = Impossible<Vec<u8>, Err>;
    type SerializeTupleStruct = Impossible<Vec<u8>, Err>;
    type SerializeTupleVariant = Impossible<Vec<u8>, Err>;
    type SerializeMap = Impossible<Vec<u8>, Err>;
    type SerializeStruct = Impossible<Vec<u8>, Err>;
    type SerializeStructVariant = Impossible<Vec<u8>, Err>;
    fn serialize_bytes(self, v: &[u8]) -> Result<Vec<u8>, Err> {
        Ok(v.to_vec())
    }
    no!(serialize_bool(bool), serialize_i8(i8), serialize_i16(i16), serialize_i32(i32), serialize_i64(i64), serialize_u8(u8), serialize_u16(u16),
        serialize_u32(u32), serialize_u64(u64), serialize_f32(f32), serialize_f64(f64), serialize_char(char), serialize_str(&str),
        serialize_unit_struct(&'static str));
    fn serialize_none(self) -> Result<Vec<u8>, Err> {
        Result::Err(Err("unexpected".into()))
    }
    fn serialize_some<T: ?Sized + Serialize>(self, _: &T) -> Result<Vec<u8>, Err> {
        Result::Err(Err("unexpected".into()))
    }
    fn serialize_unit(self) -> Result<Vec<u8>, Err> {
        Result::Err(Err("unexpected".into()))
    }
    fn serialize_unit_variant(self, _: &'static str, _: u32, _: &'static str) -> Result<Vec<u8>, Err> {
        Result::Err(Err("unexpected".into()))
    }
    fn serialize_newtype_struct<T: ?Sized + Serialize>(self, _: &'static str, _: &T) -> Result<Vec<u8>, Err> {
        Result::Err(Err("unexpected".into()))
    }
    fn serialize_newtype_variant<T: ?Sized + Serialize>(self, _: &'static str, _: u32, _: &'static str, _: &T) -> Result<Vec<u8>, Err> {
        Result::Err(Err("unexpected".into()))
    }
    fn serialize_seq(self, _: Option<usize>) -> Result<Self::SerializeSeq, Err> {
        Result::Err(Err("unexpected".into()))
    }
    fn serialize_tuple(self, _: usize) -> Result<Self::SerializeTuple, Err> {
        Result::Err(Err("unexpected".into()))
    }
    fn serialize_tuple_struct(self, _: &'static str, _: usize) -> Result<Self::SerializeTupleStruct, Err> {
        Result::Err(Err("unexpected".into()))
    }
    fn serialize_tuple_variant(self, _: &'static str, _: u32, _: &'static str, _: usize) -> Result<Self::SerializeTupleVariant, Err> {
        Result::Err(Err("unexpected".into()))
    }
    fn serialize_map(self, _: Option<usize>) -> Result<Self::SerializeMap, Err> {
        Result::Err(Err("unexpected".into()))
    }
    fn serialize_struct(self, _: &'static str, _: usize) -> Result<Self::SerializeStruct, Err> {
        Result::Err(Err("unexpected".into()))
    }
    fn serialize_struct_variant(self, _: &'static str, _: u32, _: &'static str, _: usize) -> Result<Self::SerializeStructVariant, Err> {
        Result::Err(Err("unexpected".into()))
    }
}

#[derive(Clone, Copy)]
enum Entry {
    Bytes,
    ByteBuf,
    Borrowed,
    Seq(Option<usize>), // size hint: None, Some(exact) or Some(wrong)
    Str,
    String,
    BorrowedStr,
}
struct De<'a> {
    e: Entry,
    d: &'a [u8],
}
struct Seq<'a> {
    d: &'a [u8],
    i: usize,
    hint: Option<usize>,
}
impl<'de, 'a> SeqAccess<'de> for Seq<'a> {
    type Error = Err;
    fn next_element_seed<T: DeserializeSeed<'de>>(&mut self, seed: T) -> Result<Option<T::Value>, Err> {
        if self.i >= self.d.len() {
            return Ok(None);
        }
        let b = self.d[self.i];
        self.i += 1;
        seed.deserialize(de::value::U8Deserializer::<Err>::new(b)).map(Some)
    }
    fn size_hint(&self) -> Option<usize> {
        self.hint
    }
}
impl<'de> de::Deserializer<'de> for De<'de> {
    type Error = Err;
    fn deserialize_any<V: Visitor<'de>>(self, v: V) -> Result<V::Value, Err> {
        match self.e {
            Entry::Bytes => v.visit_bytes(self.d),
            Entry::ByteBuf => v.visit_byte_buf(self.d.to_vec()),
            Entry::Borrowed => v.visit_borrowed_bytes(self.d),
            Entry::Seq(h) => v.visit_seq(Seq { d: self.d, i: 0, hint: h }),
            Entry::Str => v.visit_str(std::str::from_utf8(self.d).unwrap()),
            Entry::String => v.visit_string(String::from_utf8(self.d.to_vec()).unwrap()),
            Entry::BorrowedStr => v.visit_borrowed_str(std::str::from_utf8(self.d).unwrap()),
        }
    }
    serde::forward_to_deserialize_any! {
        bool i8 i16 i32 i64 i128 u8 u16 u32 u64 u128 f32 f64 char str string bytes byte_buf option unit unit_struct newtype_struct seq tuple
        tuple_struct map struct enum identifier ignored_any
    }
}

/// A non-self-describing format (bincode / postcard style): the value can only be decoded
/// through the type hint the Deserialize impl gives; `deserialize_any` is an error.
struct StrictDe<'a> {
    d: &'a [u8],
}
impl<'de> de::Deserializer<'de> for StrictDe<'de> {
    type Error = Err;
    fn deserialize_any<V: Visitor<'de>>(self, _v: V) -> Result<V::Value, Err> {
        Result::Err(<Err as de::Error>::custom("this format is not self-describing"))
    }
    fn deserialize_bytes<V: Visitor<'de>>(self, v: V) -> Result<V::Value, Err> {
        v.visit_bytes(self.d)
    }
    fn deserialize_byte_buf<V: Visitor<'de>>(self, v: V) -> Result<V::Value, Err> {
        v.visit_byte_buf(self.d.to_vec())
    }
    fn deserialize_seq<V: Visitor<'de>>(self, v: V) -> Result<V::Value, Err> {
        v.visit_seq(Seq { d: self.d, i: 0, hint: Some(self.d.len()) })
    }
    serde::forward_to_deserialize_any! {
        bool i8 i16 i32 i64 i128 u8 u16 u32 u64 u128 f32 f64 char str string option unit unit_struct newtype_struct tuple
        tuple_struct map struct enum identifier ignored_any
    }
}

fn jb(out: &mut String, d: &[u8]) {
    out.push('[');
    for (i, x) in d.iter().enumerate() {
        if i > 0 {
            out.push(',');
        }
        let _ = write!(out, "{}", x);
    }
    out.push(']');
}

fn case(f: &mut impl std::io::Write, d: &[u8]) {
    let utf8 = std::str::from_utf8(d).is_ok();
    let mut entries: Vec<(&str, Entry)> = vec![
        ("visit_bytes", Entry::Bytes),
        ("visit_byte_buf", Entry::ByteBuf),
        ("visit_borrowed_bytes", Entry::Borrowed),
        ("visit_seq_nohint", Entry::Seq(None)),
        ("visit_seq_hint", Entry::Seq(Some(d.len()))),
        ("visit_seq_lowhint", Entry::Seq(Some(d.len() / 2))),
        ("visit_seq_highhint", Entry::Seq(Some(d.len() * 2 + 1))),
        ("visit_seq_hugehint", Entry::Seq(Some(usize::MAX))),
    ];
    if utf8 {
        entries.push(("visit_str", Entry::Str));
        entries.push(("visit_string", Entry::String));
        entries.push(("visit_borrowed_str", Entry::BorrowedStr));
    }
    let mut out = String::new();
    for ty in ["Bytes", "BytesMut"] {
        // serialize
        let ser = if ty == "Bytes" { Bytes::copy_from_slice(d).serialize(Cap) } else { BytesMut::from(d).serialize(Cap) };
        out.clear();
        let _ = write!(out, "{{\"k\":\"serde\",\"ty\":\"{}\",\"entry\":\"serialize\",\"ok\":{},\"d\":", ty, ser.is_ok());
        jb(&mut out, d);
        out.push_str(",\"out\":");
        jb(&mut out, &ser.unwrap_or_default());
        out.push_str("}\n");
        f.write_all(out.as_bytes()).unwrap();
        {
            let r: Result<Vec<u8>, Err> = if ty == "Bytes" {
                Bytes::deserialize(StrictDe { d }).map(|b| b.to_vec())
            } else {
                BytesMut::deserialize(StrictDe { d }).map(|b| b.to_vec())
            };
            out.clear();
            let _ = write!(out, "{{\"k\":\"serde\",\"ty\":\"{}\",\"entry\":\"non_self_describing_format\",\"ok\":{},\"d\":", ty, r.is_ok());
            jb(&mut out, d);
            out.push_str(",\"out\":");
            jb(&mut out, &r.unwrap_or_default());
            out.push_str("}\n");
            f.write_all(out.as_bytes()).unwrap();
        }
        for (name, e) in &entries {
            // (a panic of the visitor -- e.g. a capacity overflow from a trusted size hint -- is a failed round trip)
            let r: Result<Vec<u8>, Err> = std::panic::catch_unwind(|| {
                if ty == "Bytes" {
                    Bytes::deserialize(De { e: *e, d }).map(|b| b.to_vec())
                } else {
                    BytesMut::deserialize(De { e: *e, d }).map(|b| b.to_vec())
                }
            })
            .unwrap_or_else(|_| Result::Err(<Err as de::Error>::custom("panic")));
            out.clear();
            let _ = write!(out, "{{\"k\":\"serde\",\"ty\":\"{}\",\"entry\":\"{}\",\"ok\":{},\"d\":", ty, name, r.is_ok());
            jb(&mut out, d);
            out.push_str(",\"out\":");
            jb(&mut out, &r.unwrap_or_default());
            out.push_str("}\n");
            f.write_all(out.as_bytes()).unwrap();
        }
    }
}

pub fn run(f: &mut impl std::io::Write, rng: &mut crate::Rng, big: bool) {
    case(f, &[]);
    for a in 0..=255u8 {
        case(f, &[a]);
    }
    for _ in 0..(if big { 3000 } else { 200 }) {
        let n = (rng.next() % 40) as usize;
        let ascii = rng.next() % 2 == 0;
        let d: Vec<u8> = (0..n).map(|_| if ascii { 0x20 + (rng.next() % 0x5f) as u8 } else { (rng.next() % 256) as u8 }).collect();
        case(f, &d);
    }
    // valid UTF-8 with multi-byte characters: the str / String / borrowed-str entry points must
    // deliver the UTF-8 bytes (random bytes are almost never valid UTF-8 beyond ASCII)
    let chars: [char; 14] = ['a', '\0', '"', '\u{7f}', '\u{80}', '\u{e9}', '\u{ff}', '\u{100}', '\u{7ff}', '\u{800}', '\u{20ac}', '\u{ffff}', '\u{10000}', '\u{10ffff}'];
    for &c in &chars {
        let mut b = [0u8; 4];
        case(f, c.encode_utf8(&mut b).as_bytes());
    }
    for _ in 0..(if big { 2000 } else { 150 }) {
        let n = (rng.next() % 12) as usize;
        let st: String = (0..n).map(|_| chars[(rng.next() % chars.len() as u64) as usize]).collect();
        case(f, st.as_bytes());
    }
    // sequences around the 4096-element pre-allocation cap of visit_seq
    for n in [4095usize, 4096, 4097, 5000] {
        let d: Vec<u8> = (0..n).map(|i| (i % 251) as u8).collect();
        case(f, &d);
    }
}

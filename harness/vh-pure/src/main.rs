//! Pure-function harness (C14, C15): evaluates every comparison / hash impl of the crate on a
//! universe of byte strings in several representations, and formats / serde-round-trips byte
//! strings; the recorded results are judged by spec/Compare.tla and spec/ByteLit.tla.
use bytes::{Buf, Bytes, BytesMut};
use std::cmp::Ordering;
use std::fmt::Write as _;
use std::hash::{Hash, Hasher};
use std::io::Write as _;

mod sd;

fn jb(out: &mut String, d: &[u8]) {
    out.push('[');
    for (i, x) in d.iter().enumerate() {
        if i > 0 {
            out.push(',');
        }
        let _ = write!(out, "{}", x);
    }
    out.push(']');
}

/// the bytes a Hash impl feeds to the hasher
#[derive(Default)]
struct Rec(Vec<u8>);
impl Hasher for Rec {
    fn finish(&self) -> u64 {
        0
    }
    fn write(&mut self, b: &[u8]) {
        self.0.extend_from_slice(b);
        self.0.push(0xfe);
    }
    fn write_usize(&mut self, n: usize) {
        self.0.extend_from_slice(&n.to_le_bytes());
        self.0.push(0xfd);
    }
    fn write_u8(&mut self, n: u8) {
        self.0.push(n);
        self.0.push(0xfc);
    }
}
fn hrec<T: Hash + ?Sized>(t: &T) -> Vec<u8> {
    let mut r = Rec::default();
    t.hash(&mut r);
    r.0
}

fn oc(o: Option<Ordering>) -> i32 {
    match o {
        Some(Ordering::Less) => -1,
        Some(Ordering::Equal) => 0,
        Some(Ordering::Greater) => 1,
        None => 9,
    }
}

/// representations of a Bytes holding `d`
fn bytes_reps(d: &[u8]) -> Vec<(&'static str, Bytes)> {
    let mut v = Vec::new();
    v.push(("static", Bytes::from_static(Box::leak(d.to_vec().into_boxed_slice()))));
    v.push(("vec", Bytes::from(d.to_vec())));
    let mut sp = Vec::with_capacity(d.len() + 3);
    sp.extend_from_slice(d);
    v.push(("shared", Bytes::from(sp)));
    let mut big = vec![7u8, 7];
    big.extend_from_slice(d);
    big.push(9);
    let b = Bytes::from(big);
    v.push(("slice", b.slice(2..2 + d.len())));
    let mut m = BytesMut::with_capacity(d.len() + 2);
    m.extend_from_slice(&[1]);
    m.extend_from_slice(d);
    let mut fz = m.freeze();
    fz.advance(1);
    v.push(("frozen", fz));
    v.push(("owner", Bytes::from_owner(d.to_vec())));
    v
}
fn mut_reps(d: &[u8]) -> Vec<(&'static str, BytesMut)> {
    let mut v = Vec::new();
    v.push(("vec", BytesMut::from(d)));
    let mut m = BytesMut::with_capacity(d.len() + 5);
    m.extend_from_slice(&[3, 3]);
    m.extend_from_slice(d);
    m.advance(2);
    v.push(("off", m));
    let mut m2 = BytesMut::from(d);
    m2.extend_from_slice(&[5, 5]);
    let tail = m2.split_off(d.len());
    drop(tail);
    v.push(("arc", m2));
    v
}

macro_rules! one {
    ($out:expr, $first:expr, $name:expr, $L:ty, $R:ty, $l:expr, $r:expr) => {{
        let l: &$L = $l;
        let r: &$R = $r;
        let eq = <$L as PartialEq<$R>>::eq(l, r);
        let ne = <$L as PartialEq<$R>>::ne(l, r);
        let pc = oc(<$L as PartialOrd<$R>>::partial_cmp(l, r));
        let lt = <$L as PartialOrd<$R>>::lt(l, r);
        let le = <$L as PartialOrd<$R>>::le(l, r);
        let gt = <$L as PartialOrd<$R>>::gt(l, r);
        let ge = <$L as PartialOrd<$R>>::ge(l, r);
        if !$first {
            $out.push(',');
        }
        $first = false;
        let _ = write!($out, "{{\"impl\":\"{}\",\"eq\":{},\"ne\":{},\"pc\":{},\"lt\":{},\"le\":{},\"gt\":{},\"ge\":{}}}", $name, eq, ne, pc, lt, le, gt, ge);
    }};
}
macro_rules! eq_only {
    ($out:expr, $first:expr, $name:expr, $L:ty, $R:ty, $l:expr, $r:expr) => {{
        let l: &$L = $l;
        let r: &$R = $r;
        let eq = <$L as PartialEq<$R>>::eq(l, r);
        let ne = <$L as PartialEq<$R>>::ne(l, r);
        if !$first {
            $out.push(',');
        }
        $first = false;
        let _ = write!($out, "{{\"impl\":\"{}\",\"eq\":{},\"ne\":{},\"pc\":8,\"lt\":false,\"le\":false,\"gt\":false,\"ge\":false}}", $name, eq, ne);
    }};
}

// what is being evaluated, kept in a side file: if the process dies inside the crate (stack overflow,
// abort) the driver turns it into a `crash` record -- data for the laws, not a tool error
pub static INTENT: std::sync::Mutex<Option<std::fs::File>> = std::sync::Mutex::new(None);
pub fn intent(mode: &str, l: &[u8], r: &[u8]) {
    use std::io::{Seek, Write as _};
    if let Ok(mut g) = INTENT.lock() {
        if let Some(f) = g.as_mut() {
            let mut s = String::new();
            let _ = write!(s, "{{\"k\":\"crash\",\"mode\":\"{}\",\"l\":", mode);
            jb(&mut s, l);
            s.push_str(",\"r\":");
            jb(&mut s, r);
            s.push_str("}\n");
            let _ = f.seek(std::io::SeekFrom::Start(0));
            let _ = f.set_len(0);
            let _ = f.write_all(s.as_bytes());
        }
    }
}

// a comparison that panics is recorded (law no_panic), the run goes on
fn cmp_pair(out: &mut String, x: &[u8], y: &[u8], rep: usize) {
    intent("cmp", x, y);
    let keep = out.len();
    if std::panic::catch_unwind(std::panic::AssertUnwindSafe(|| cmp_pair_inner(out, x, y, rep))).is_err() {
        out.truncate(keep);
        out.push_str("{\"k\":\"panic\",\"mode\":\"cmp\",\"l\":");
        jb(out, x);
        out.push_str(",\"r\":");
        jb(out, y);
        out.push_str("}\n");
    }
}

#[allow(unused_assignments)]
fn cmp_pair_inner(out: &mut String, x: &[u8], y: &[u8], rep: usize) {
    let br = bytes_reps(x);
    let mr = mut_reps(x);
    let br2 = bytes_reps(y);
    let mr2 = mut_reps(y);
    let (bn, b) = &br[rep % br.len()];
    let (mn, m) = &mr[rep % mr.len()];
    let (bn2, b2) = &br2[(rep / 2) % br2.len()];
    let (mn2, m2) = &mr2[(rep / 3) % mr2.len()];
    out.push_str("{\"k\":\"cmp\",\"l\":");
    jb(out, x);
    out.push_str(",\"r\":");
    jb(out, y);
    let _ = write!(out, ",\"reps\":\"{}/{}/{}/{}\",\"res\":[", bn, mn, bn2, mn2);
    let mut first = true;
    let yv: Vec<u8> = y.to_vec();
    let xv: Vec<u8> = x.to_vec();
    let ys: &[u8] = y;
    let xs: &[u8] = x;
    // Bytes on the left / right
    one!(out, first, "Bytes,Bytes", Bytes, Bytes, b, b2);
    one!(out, first, "Bytes,[u8]", Bytes, [u8], b, ys);
    one!(out, first, "[u8],Bytes", [u8], Bytes, xs, b2);
    one!(out, first, "Bytes,Vec", Bytes, Vec<u8>, b, &yv);
    one!(out, first, "Vec,Bytes", Vec<u8>, Bytes, &xv, b2);
    one!(out, first, "Bytes,&[u8]", Bytes, &[u8], b, &ys);
    one!(out, first, "&[u8],Bytes", &[u8], Bytes, &xs, b2);
    // two views that start at the same address of one buffer (one operand a prefix of the other)
    if x.starts_with(y) || y.starts_with(x) {
        let longer = if x.len() >= y.len() { x } else { y };
        let base = match rep % 3 {
            0 => Bytes::from(longer.to_vec()),
            1 => Bytes::from_static(Box::leak(longer.to_vec().into_boxed_slice())),
            _ => BytesMut::from(longer).freeze(),
        };
        let vx = base.slice(..x.len());
        let vy = base.slice(..y.len());
        one!(out, first, "Bytes,Bytes(same buffer)", Bytes, Bytes, &vx, &vy);
        let mut tx = base.clone();
        tx.truncate(x.len());
        let mut ty = base.clone();
        ty.truncate(y.len());
        one!(out, first, "Bytes,Bytes(truncated clones)", Bytes, Bytes, &tx, &ty);
    }
    // BytesMut
    one!(out, first, "BytesMut,BytesMut", BytesMut, BytesMut, m, m2);
    one!(out, first, "BytesMut,[u8]", BytesMut, [u8], m, ys);
    one!(out, first, "[u8],BytesMut", [u8], BytesMut, xs, m2);
    one!(out, first, "BytesMut,Vec", BytesMut, Vec<u8>, m, &yv);
    one!(out, first, "Vec,BytesMut", Vec<u8>, BytesMut, &xv, m2);
    one!(out, first, "BytesMut,&[u8]", BytesMut, &[u8], m, &ys);
    one!(out, first, "&[u8],BytesMut", &[u8], BytesMut, &xs, m2);
    eq_only!(out, first, "Bytes,BytesMut", Bytes, BytesMut, b, m2);
    eq_only!(out, first, "BytesMut,Bytes", BytesMut, Bytes, m, b2);
    // the str-typed operand must be valid UTF-8; the Bytes / BytesMut operand may hold anything
    if let Ok(sy) = std::str::from_utf8(y) {
        let sty = sy.to_string();
        one!(out, first, "Bytes,str", Bytes, str, b, sy);
        one!(out, first, "Bytes,String", Bytes, String, b, &sty);
        one!(out, first, "Bytes,&str", Bytes, &str, b, &sy);
        one!(out, first, "BytesMut,str", BytesMut, str, m, sy);
        one!(out, first, "BytesMut,String", BytesMut, String, m, &sty);
        one!(out, first, "BytesMut,&str", BytesMut, &str, m, &sy);
    }
    if let Ok(sx) = std::str::from_utf8(x) {
        let stx = sx.to_string();
        one!(out, first, "str,Bytes", str, Bytes, sx, b2);
        one!(out, first, "String,Bytes", String, Bytes, &stx, b2);
        one!(out, first, "&str,Bytes", &str, Bytes, &sx, b2);
        one!(out, first, "str,BytesMut", str, BytesMut, sx, m2);
        one!(out, first, "String,BytesMut", String, BytesMut, &stx, m2);
        one!(out, first, "&str,BytesMut", &str, BytesMut, &sx, m2);
    }
    let _ = write!(out, "],\"ordb\":{},\"ordm\":{}", oc(Some(Ord::cmp(b, b2))), oc(Some(Ord::cmp(m, m2))));
    // hashing and borrowing: as the borrowed [u8]
    let hs = hrec::<[u8]>(x);
    let hb = hrec(b) == hs;
    let hm = hrec(m) == hs;
    let bb = <Bytes as std::borrow::Borrow<[u8]>>::borrow(b) == x;
    let bm = <BytesMut as std::borrow::Borrow<[u8]>>::borrow(m) == x;
    let _ = write!(out, ",\"hb\":{},\"hm\":{},\"bb\":{},\"bm\":{}}}\n", hb, hm, bb, bm);
}

fn universe(maxlen: usize) -> Vec<Vec<u8>> {
    let alpha = [0x00u8, 0x61, 0x62, 0xff];
    let mut u: Vec<Vec<u8>> = vec![vec![]];
    let mut layer: Vec<Vec<u8>> = vec![vec![]];
    for _ in 0..maxlen {
        let mut next = Vec::new();
        for s in &layer {
            for &a in &alpha {
                let mut t = s.clone();
                t.push(a);
                next.push(t);
            }
        }
        u.extend(next.iter().cloned());
        layer = next;
    }
    u
}

fn chars(out: &mut String, s: &str) {
    out.push('[');
    for (i, c) in s.chars().enumerate() {
        if i > 0 {
            out.push(',');
        }
        let _ = write!(out, "{}", c as u32);
    }
    out.push(']');
}

// a formatting call that panics is a result like any other (it is not any byte string's
// rendering, so the law rejects it)
fn fp<F: FnOnce() -> String>(f: F) -> String {
    std::panic::catch_unwind(std::panic::AssertUnwindSafe(f)).unwrap_or_else(|_| "<panic>".to_string())
}

fn fmt_case(out: &mut String, d: &[u8], rep: usize) {
    intent("fmt", d, &[]);
    let br = bytes_reps(d);
    let mr = mut_reps(d);
    let (bn, b) = &br[rep % br.len()];
    let (mn, m) = &mr[rep % mr.len()];
    // the format specification must not change what is printed: width, fill, precision, `#` and
    // zero padding are rotated over the cases
    macro_rules! three {
        ($v:expr) => {
            match rep % 6 {
                1 => (fp(|| format!("{:4?}", $v)), fp(|| format!("{:4x}", $v)), fp(|| format!("{:4X}", $v))),
                2 => (fp(|| format!("{:.0?}", $v)), fp(|| format!("{:.1x}", $v)), fp(|| format!("{:.3X}", $v))),
                3 => (fp(|| format!("{:#?}", $v)), fp(|| format!("{:#x}", $v)), fp(|| format!("{:#X}", $v))),
                4 => (fp(|| format!("{:<12?}", $v)), fp(|| format!("{:>9x}", $v)), fp(|| format!("{:^7X}", $v))),
                5 => (fp(|| format!("{:08?}", $v)), fp(|| format!("{:08x}", $v)), fp(|| format!("{:+X}", $v))),
                _ => (fp(|| format!("{:?}", $v)), fp(|| format!("{:x}", $v)), fp(|| format!("{:X}", $v))),
            }
        };
    }
    let (bd, bl, bu) = three!(b);
    let (md, ml, mu) = three!(m);
    for (ty, rn, dbg, lx, ux) in [("Bytes", *bn, bd, bl, bu), ("BytesMut", *mn, md, ml, mu)] {
        out.push_str("{\"k\":\"fmt\",\"d\":");
        jb(out, d);
        let _ = write!(out, ",\"ty\":\"{}\",\"rep\":\"{}\",\"dbg\":", ty, rn);
        chars(out, &dbg);
        out.push_str(",\"lx\":");
        chars(out, &lx);
        out.push_str(",\"ux\":");
        chars(out, &ux);
        out.push_str("}\n");
    }
}

struct Rng(u64);
impl Rng {
    fn next(&mut self) -> u64 {
        let mut x = self.0;
        x ^= x >> 12;
        x ^= x << 25;
        x ^= x >> 27;
        self.0 = x;
        x.wrapping_mul(0x2545F4914F6CDD1D)
    }
}

fn main() {
    let args: Vec<String> = std::env::args().collect();
    let mode = args.get(1).map(|s| s.as_str()).unwrap_or("cmp");
    if mode == "cmp" {
        std::panic::set_hook(Box::new(|_| {}));
    }
    let outp = args.get(2).cloned().unwrap_or_else(|| "/dev/stdout".into());
    let seed: u64 = args.get(3).and_then(|s| s.parse().ok()).unwrap_or(1);
    let big = args.get(4).map(|s| s == "thorough").unwrap_or(false);
    let mut f = std::io::BufWriter::new(std::fs::File::create(&outp).expect("create out"));
    *INTENT.lock().unwrap() = std::fs::File::create(format!("{}.intent", outp)).ok();
    let mut out = String::new();
    let mut rng = Rng(seed.wrapping_mul(0x9E3779B97F4A7C15) | 1);
    match mode {
        "cmp" => {
            let u = universe(if big { 4 } else { 3 });
            let mut k = seed as usize;
            for x in &u {
                for y in &u {
                    out.clear();
                    cmp_pair(&mut out, x, y, k);
                    k += 1;
                    f.write_all(out.as_bytes()).unwrap();
                }
            }
            // longer strings with common prefixes, incl. non-UTF-8
            for _ in 0..(if big { 20000 } else { 1500 }) {
                let n = (rng.next() % 12) as usize;
                let mut x: Vec<u8> = (0..n).map(|_| [0x00u8, 0x61, 0x62, 0x7f, 0x80, 0xff, 0x41][(rng.next() % 7) as usize]).collect();
                let mut y = x.clone();
                match rng.next() % 4 {
                    0 => y.truncate((rng.next() % (n as u64 + 1)) as usize),
                    1 => y.push((rng.next() % 256) as u8),
                    2 => {
                        if n > 0 {
                            let i = (rng.next() % n as u64) as usize;
                            y[i] = (rng.next() % 256) as u8;
                        }
                    }
                    _ => x.push((rng.next() % 256) as u8),
                }
                out.clear();
                cmp_pair(&mut out, &x, &y, k);
                k += 1;
                f.write_all(out.as_bytes()).unwrap();
            }
            // long operands (comparisons that work in blocks): equal, differing in the last byte,
            // one a strict prefix of the other, differing in the first byte; ASCII and arbitrary bytes
            let lens: &[usize] = if big { &[31, 32, 33, 63, 64, 65, 127, 129, 1000, 4096, 4097] } else { &[31, 32, 33, 64, 65, 129, 300] };
            for &n in lens {
                for ascii in [true, false] {
                    let x: Vec<u8> = (0..n).map(|_| if ascii { 0x20 + (rng.next() % 0x5f) as u8 } else { (rng.next() % 256) as u8 }).collect();
                    let mut last = x.clone();
                    last[n - 1] ^= 1;
                    let mut first = x.clone();
                    first[0] ^= 1;
                    for y in [x.clone(), last, x[..n - 1].to_vec(), first] {
                        out.clear();
                        cmp_pair(&mut out, &x, &y, k);
                        k += 1;
                        f.write_all(out.as_bytes()).unwrap();
                        out.clear();
                        cmp_pair(&mut out, &y, &x, k);
                        k += 1;
                        f.write_all(out.as_bytes()).unwrap();
                    }
                }
            }
        }
        "fmt" => {
            std::panic::set_hook(Box::new(|_| {}));
            let mut k = seed as usize;
            for a in 0..=255u8 {
                out.clear();
                fmt_case(&mut out, &[a], k);
                k += 1;
                f.write_all(out.as_bytes()).unwrap();
            }
            // pairs: all 65536 (thorough) or over a boundary alphabet (quick)
            let alpha: Vec<u8> = if big {
                (0..=255u8).collect()
            } else {
                vec![0, 1, 9, 10, 13, 0x1f, 0x20, b'"', b'\'', b'0', b'7', b'9', b'a', b'f', b'n', b'x', b'\\', 0x7e, 0x7f, 0x80, 0xc3, 0xfe, 0xff, b'A']
            };
            for &a in &alpha {
                for &b in &alpha {
                    out.clear();
                    fmt_case(&mut out, &[a, b], k);
                    k += 1;
                    f.write_all(out.as_bytes()).unwrap();
                }
            }
            for _ in 0..(if big { 10000 } else { 600 }) {
                let n = (rng.next() % 24) as usize;
                // printable-heavy strings with quotes and backslashes, and arbitrary bytes
                let d: Vec<u8> = (0..n)
                    .map(|_| match rng.next() % 6 {
                        0 => b'"',
                        1 => b'\\',
                        2 => (rng.next() % 256) as u8,
                        _ => 0x20 + (rng.next() % 0x5f) as u8,
                    })
                    .collect();
                out.clear();
                fmt_case(&mut out, &d, k);
                k += 1;
                f.write_all(out.as_bytes()).unwrap();
            }
            // longer contents (formatters that work in blocks)
            for &n in &[31usize, 32, 33, 40, 63, 64, 65, 97, 128, 129, 257] {
                for _ in 0..(if big { 20 } else { 3 }) {
                    let d: Vec<u8> = (0..n).map(|_| (rng.next() % 256) as u8).collect();
                    out.clear();
                    fmt_case(&mut out, &d, k);
                    k += 1;
                    f.write_all(out.as_bytes()).unwrap();
                }
            }
            out.clear();
            fmt_case(&mut out, &[], k);
            f.write_all(out.as_bytes()).unwrap();
        }
        "serde" => {
            sd::run(&mut f, &mut rng, big);
        }
        _ => {
            eprintln!("usage: vh-pure cmp|fmt|serde OUT SEED [thorough]");
            std::process::exit(2);
        }
    }
    f.flush().unwrap();
}

//! Seeded random program driver.  It only *chooses* operations (looking at the real state to
//! pick interesting argument classes); it decides nothing about correctness.
use crate::{Arg, Machine, Op, H};

pub struct Rng(pub u64);
impl Rng {
    pub fn next(&mut self) -> u64 {
        // xorshift64*
        let mut x = self.0;
        x ^= x >> 12;
        x ^= x << 25;
        x ^= x >> 27;
        self.0 = x;
        x.wrapping_mul(0x2545F4914F6CDD1D)
    }
    pub fn below(&mut self, n: usize) -> usize {
        if n == 0 {
            0
        } else {
            (self.next() >> 33) as usize % n
        }
    }
    pub fn chance(&mut self, pct: usize) -> bool {
        self.below(100) < pct
    }
}

pub struct Gen {
    pub r: Rng,
    pub maxh: usize,
    pub maxlen: usize,
    /// "mixed": everything; "safe": only in-contract arguments; "mut": BytesMut-centred;
    /// "contract": many out-of-contract arguments
    pub profile: String,
    /// focus mode: for a few steps the driver stays with one handle, drops (or unsplits) the
    /// other handles on its buffer and applies the operations whose behaviour depends on being
    /// the only holder (conversions, reserve / try_reclaim, truncate + convert, ...).  A uniform
    /// choice among 6-8 handles almost never gets a buffer back to a single holder.
    pub focus: Option<usize>,
    pub focus_left: usize,
    /// second half of a two-step move of a focus session (e.g. empty the handle, then reclaim)
    pub pending: Option<Op>,
    /// the handle that received the last `unsplit`: it is often written to next (a join that
    /// claims capacity it does not own shows up as a changed sibling only then)
    pub joined: Option<usize>,
}

fn rel(r: &str, d: i64) -> Option<Arg> {
    Some(Arg::Rel(r.to_string(), d))
}
fn abs(v: usize) -> Option<Arg> {
    Some(Arg::Abs(v))
}

impl Gen {
    pub fn new(seed: u64, maxh: usize, maxlen: usize, profile: &str) -> Gen {
        // splitmix64 scramble so that neighbouring seeds give unrelated streams
        let mut z = seed.wrapping_add(0x9E3779B97F4A7C15);
        z = (z ^ (z >> 30)).wrapping_mul(0xBF58476D1CE4E5B9);
        z = (z ^ (z >> 27)).wrapping_mul(0x94D049BB133111EB);
        z ^= z >> 31;
        let mut r = Rng(if z == 0 { 0x1234567 } else { z });
        for _ in 0..4 {
            r.next();
        }
        Gen { r, maxh, maxlen, profile: profile.to_string(), focus: None, focus_left: 0, pending: None, joined: None }
    }

    fn bad_pct(&self) -> usize {
        match self.profile.as_str() {
            "safe" => 0,
            "contract" => 35,
            _ => 8,
        }
    }

    /// an index argument relative to `len`
    fn index(&mut self, len: usize) -> Option<Arg> {
        if self.r.chance(self.bad_pct()) {
            return match self.r.below(7) {
                0 => rel("len", 1),
                1 => rel("len", 2),
                2 => rel("max", 0),
                3 => rel("imax", 1),
                4 => rel("cap", 1),
                5 => rel("cap", 0),
                _ => rel("max", -1),
            };
        }
        match self.r.below(8) {
            0 => abs(0),
            1 => abs(1.min(len)),
            2 => rel("len", 0),
            3 => {
                if len > 0 {
                    rel("len", -1)
                } else {
                    abs(0)
                }
            }
            _ => abs(self.r.below(len + 1)),
        }
    }

    fn cap_index(&mut self, len: usize, cap: usize) -> Option<Arg> {
        if self.r.chance(self.bad_pct()) {
            return match self.r.below(4) {
                0 => rel("cap", 1),
                1 => rel("max", 0),
                2 => rel("imax", 1),
                _ => rel("cap", 2),
            };
        }
        match self.r.below(8) {
            0 => abs(0),
            1 => rel("cap", 0),
            2 => rel("len", 0),
            3 => abs((len + 1).min(cap)),
            4 => abs(self.r.below(cap + 1)),
            _ => abs(self.r.below(len + 1)),
        }
    }

    fn reserve_arg(&mut self) -> Option<Arg> {
        if self.r.chance(self.bad_pct()) {
            return match self.r.below(8) {
                0 => rel("imaxlen", 1),
                1 => rel("maxlen", 0),
                2 => rel("maxlen", 1),
                3 => rel("max", 0),
                4 => rel("maxlen", -1),
                5 => rel("imaxlen", 2),
                6 => rel("maxcap", 0),
                _ => rel("max", -7),
            };
        }
        match self.r.below(10) {
            0 => abs(0),
            1 => abs(1),
            2 => rel("spare", 0),
            3 => rel("spare", 1),
            4 => rel("aszlen", 0),
            5 => rel("asz", 0),
            6 => rel("asz", 1),
            7 => abs(64),
            _ => abs(self.r.below(2 * self.maxlen + 2)),
        }
    }

    /// op mix for programs under adjacent placement: full buffers, promotions that keep them
    /// full, unsplit of arbitrary pairs, slice_ref across handles
    fn next_adjacent(&mut self, m: &Machine) -> Op {
        let live = m.live_ids();
        let ms: Vec<usize> = live.iter().copied().filter(|&i| matches!(m.hs[i], Some(H::M(_)))).collect();
        let bs: Vec<usize> = live.iter().copied().filter(|&i| matches!(m.hs[i], Some(H::B(_)))).collect();
        let n = 1 + self.r.below(self.maxlen.max(2));
        if live.len() < 2 || (live.len() < self.maxh && self.r.chance(25)) {
            return match self.r.below(4) {
                0 => Op { op: "b_from_box".into(), a: abs(n), ..Default::default() },
                1 => Op { op: "b_copy".into(), a: abs(n), ..Default::default() },
                _ => Op { op: "m_from_slice".into(), a: abs(n), ..Default::default() },
            };
        }
        let room = live.len() < self.maxh;
        for _ in 0..20 {
            match self.r.below(12) {
                0 | 1 | 2 if ms.len() >= 2 => {
                    let h = ms[self.r.below(ms.len())];
                    let o = ms[self.r.below(ms.len())];
                    if h != o {
                        return Op { op: "m_unsplit".into(), h, o, ..Default::default() };
                    }
                }
                3 | 4 if room && !ms.is_empty() => {
                    let h = ms[self.r.below(ms.len())];
                    let a = match self.r.below(4) {
                        0 => rel("cap", 0),
                        1 => rel("len", 0),
                        2 => abs(0),
                        _ => abs(1),
                    };
                    return Op { op: "m_split_off".into(), h, a, ..Default::default() };
                }
                5 if room && !ms.is_empty() => {
                    let h = ms[self.r.below(ms.len())];
                    return Op { op: "m_split_to".into(), h, a: if self.r.chance(50) { abs(0) } else { abs(1) }, ..Default::default() };
                }
                6 if !ms.is_empty() => {
                    let h = ms[self.r.below(ms.len())];
                    return Op { op: "m_fill_spare".into(), h, ..Default::default() };
                }
                7 | 8 if !bs.is_empty() && room => {
                    let h = bs[self.r.below(bs.len())];
                    let o = live[self.r.below(live.len())];
                    if o != h {
                        let (x, y) = match self.r.below(3) {
                            0 => (0, 1),
                            1 => (0, 64),
                            _ => (self.r.below(4), 64),
                        };
                        return Op { op: "b_slice_ref".into(), h, o, a: abs(x), b: abs(y), mode: 3, ..Default::default() };
                    }
                }
                9 if !live.is_empty() => {
                    let h = live[self.r.below(live.len())];
                    return Op { op: "drop".into(), h, ..Default::default() };
                }
                10 if !ms.is_empty() => {
                    let h = ms[self.r.below(ms.len())];
                    return Op { op: "m_extend".into(), h, a: abs(self.r.below(3)), ..Default::default() };
                }
                11 if !ms.is_empty() => {
                    let h = ms[self.r.below(ms.len())];
                    return Op { op: "m_freeze".into(), h, ..Default::default() };
                }
                _ => {}
            }
        }
        Op { op: "m_from_slice".into(), a: abs(n), ..Default::default() }
    }

    /// One step of a focus session (see `focus`).  Stages: 0 = maybe split the handle at a
    /// boundary-biased position; 1 = get rid of every other handle on its buffer (drop it, or
    /// unsplit with it, in either direction); 2 = shorten / clear / reclaim; 3 = convert
    /// (freeze, into_mut, try_into_mut, into_vec); then possibly once more from stage 0 with the
    /// converted handle.
    fn next_focus(&mut self, m: &Machine) -> Option<Op> {
        let live = m.live_ids();
        let f = match self.focus {
            Some(f) if m.hs.get(f).map(|x| x.is_some()).unwrap_or(false) => f,
            // the focus was consumed by a conversion: follow the newest handle
            Some(_) => *live.last()?,
            None => return None,
        };
        self.focus = Some(f);
        let v = m.view(f)?;
        let room = live.len() < self.maxh;
        let h = f;
        if let Some(mut op) = self.pending.take() {
            if matches!(m.hs.get(op.h), Some(Some(H::M(_)))) {
                if op.op == "m_split_to" && op.a.is_none() {
                    let len = v.len;
                    op.a = if len > 1 { abs(1 + self.r.below(len - 1)) } else { abs(0) };
                }
                let other_ok = op.op != "m_unsplit" || m.hs.get(op.o).map(|x| matches!(x, Some(H::M(_)))).unwrap_or(false);
                if !(op.op.starts_with("m_split") && !room) && other_ok {
                    return Some(op);
                }
            }
        }
        loop {
            let stage = self.focus_left;
            if stage >= 8 {
                self.focus = None;
                return None;
            }
            self.focus_left += 1;
            match (stage % 4, m.hs[f].as_ref().unwrap()) {
                (0, H::M(mm)) if room && mm.len() >= 1 && self.r.chance(12) => {
                    // an empty handle at the very end of its buffer (for a full buffer: capacity 0 with
                    // the whole allocation in front of it), then split it
                    self.pending = Some(match self.r.below(3) {
                        0 => Op { op: "m_split".into(), h, ..Default::default() },
                        1 => Op { op: "m_split_to".into(), h, a: abs(0), ..Default::default() },
                        _ => Op { op: "m_split_off".into(), h, a: abs(0), ..Default::default() },
                    });
                    return Some(Op { op: "m_advance".into(), h, a: rel("len", 0), ..Default::default() });
                }
                (0, H::M(mm)) if room && mm.len() >= 2 && self.r.chance(25) => {
                    // cut a middle piece out of the buffer: keep [0, at), then drop its front
                    let len = mm.len();
                    self.pending = Some(Op { op: "m_split_to".into(), h, a: None, ..Default::default() });
                    return Some(Op { op: "m_split_off".into(), h, a: abs(2 + self.r.below(len - 1)), ..Default::default() });
                }
                (0, H::M(mm)) if room && self.r.chance(60) => {
                    let (len, cap) = (mm.len(), mm.capacity());
                    return Some(match self.r.below(6) {
                        0 => Op { op: "m_split".into(), h, ..Default::default() },
                        1 => Op { op: "m_split_to".into(), h, a: abs(0), ..Default::default() },
                        2 => Op { op: "m_split_to".into(), h, a: rel("len", 0), ..Default::default() },
                        3 => Op { op: "m_split_off".into(), h, a: if self.r.chance(50) { rel("len", 0) } else { rel("cap", 0) }, ..Default::default() },
                        4 => Op { op: "m_split_off".into(), h, a: self.cap_index(len, cap), ..Default::default() },
                        _ => Op { op: "m_split_to".into(), h, a: self.index(len), ..Default::default() },
                    });
                }
                (0, H::B(b)) if room && self.r.chance(60) => {
                    let len = b.len();
                    return Some(match self.r.below(5) {
                        0 => Op { op: "b_clone".into(), h, ..Default::default() },
                        1 => Op { op: "b_split_off".into(), h, a: self.index(len), ..Default::default() },
                        2 => Op { op: "b_split_to".into(), h, a: self.index(len), ..Default::default() },
                        3 => {
                            let x = self.r.below(len + 1);
                            let y = x + self.r.below(len - x + 1);
                            Op { op: "b_slice".into(), h, a: abs(x), b: abs(y), ..Default::default() }
                        }
                        _ => Op { op: "b_copy_to_bytes".into(), h, a: self.index(len), ..Default::default() },
                    });
                }
                (1, _) if v.a > 0 => {
                    let sharers: Vec<usize> = live
                        .iter()
                        .copied()
                        .filter(|&o| o != f && m.view(o).map(|w| w.a == v.a || (w.a2 == v.a && w.len == 0)).unwrap_or(false))
                        .collect();
                    if sharers.is_empty() {
                        continue;
                    }
                    self.focus_left -= 1; // stay in this stage until the handle is alone
                    // sometimes join two OTHER pieces of the buffer first (pieces that are not neighbours included)
                    let ms: Vec<usize> = sharers.iter().copied().filter(|&g| matches!(m.hs[g], Some(H::M(_)))).collect();
                    if ms.len() >= 2 && self.r.chance(25) {
                        let a = ms[self.r.below(ms.len())];
                        let b = ms[self.r.below(ms.len())];
                        if a != b {
                            // ... and write into whatever capacity the joined handle now claims
                            self.pending = Some(if self.r.chance(50) {
                                Op { op: "m_fill_spare".into(), h: a, ..Default::default() }
                            } else {
                                Op { op: "m_extend".into(), h: a, a: rel("spare", 0), ..Default::default() }
                            });
                            return Some(Op { op: "m_unsplit".into(), h: a, o: b, ..Default::default() });
                        }
                    }
                    let o = sharers[self.r.below(sharers.len())];
                    let both_m = matches!(m.hs[f], Some(H::M(_))) && matches!(m.hs[o], Some(H::M(_)));
                    if both_m && self.r.chance(50) {
                        let (front, back) = if self.r.chance(50) { (f, o) } else { (o, f) };
                        self.focus = Some(front);
                        let un = Op { op: "m_unsplit".into(), h: front, o: back, ..Default::default() };
                        if self.r.chance(35) {
                            // shorten the receiving half first (0 < len < capacity), then join
                            let fl = m.view(front).map(|w| w.len).unwrap_or(0);
                            self.pending = Some(un);
                            return Some(match self.r.below(3) {
                                0 => Op { op: "m_truncate".into(), h: front, a: if fl > 1 { abs(1 + self.r.below(fl - 1)) } else { abs(0) }, ..Default::default() },
                                1 => Op { op: "m_truncate".into(), h: front, a: self.index(fl), ..Default::default() },
                                _ => Op { op: "m_resize".into(), h: front, a: abs(self.r.below(fl + 1)), val: 210, ..Default::default() },
                            });
                        }
                        return Some(un);
                    }
                    return Some(Op { op: "drop".into(), h: o, ..Default::default() });
                }
                (2, H::M(_)) if self.r.chance(40) => {
                    // empty the handle, then ask for room around the size of the whole allocation
                    let a = match self.r.below(6) {
                        0 | 1 => rel("asz", 0),
                        2 => rel("aszlen", 0),
                        3 => rel("asz", -1),
                        4 => rel("spare", 1),
                        _ => self.reserve_arg(),
                    };
                    self.pending = Some(Op { op: if self.r.chance(60) { "m_try_reclaim".into() } else { "m_reserve".into() }, h, a, ..Default::default() });
                    return Some(match self.r.below(3) {
                        0 => Op { op: "m_clear".into(), h, ..Default::default() },
                        1 => Op { op: "m_advance".into(), h, a: rel("len", 0), ..Default::default() },
                        _ => Op { op: "m_truncate".into(), h, a: abs(0), ..Default::default() },
                    });
                }
                (2, H::M(mm)) if self.r.chance(60) => {
                    let len = mm.len();
                    return Some(match self.r.below(8) {
                        0 => Op { op: "m_clear".into(), h, ..Default::default() },
                        1 => Op { op: "m_advance".into(), h, a: self.index(len), ..Default::default() },
                        2 => Op { op: "m_truncate".into(), h, a: self.index(len), ..Default::default() },
                        3 | 4 => Op { op: "m_try_reclaim".into(), h, a: self.reserve_arg(), ..Default::default() },
                        5 => Op { op: "m_reserve".into(), h, a: self.reserve_arg(), ..Default::default() },
                        6 => Op { op: "m_extend".into(), h, a: abs(self.r.below(self.maxlen + 1)), mode: self.r.below(10) as i64, ..Default::default() },
                        _ => Op { op: "m_resize".into(), h, a: abs(self.r.below(2 * self.maxlen + 1)), val: if self.r.chance(30) { 0 } else { 200 + self.r.below(16) as u8 }, ..Default::default() },
                    });
                }
                (2, H::B(b)) if self.r.chance(50) => {
                    let len = b.len();
                    return Some(match self.r.below(3) {
                        0 => Op { op: "b_truncate".into(), h, a: self.index(len), ..Default::default() },
                        1 => Op { op: "b_advance".into(), h, a: self.index(len), ..Default::default() },
                        _ => Op { op: "b_clear".into(), h, ..Default::default() },
                    });
                }
                (3, H::M(_)) => {
                    return Some(if self.r.chance(80) { Op { op: "m_freeze".into(), h, ..Default::default() } } else { Op { op: "m_into_vec".into(), h, ..Default::default() } });
                }
                (3, H::B(_)) => {
                    return Some(match self.r.below(5) {
                        0 | 1 => Op { op: "b_into_mut".into(), h, ..Default::default() },
                        2 | 3 => Op { op: "b_try_into_mut".into(), h, ..Default::default() },
                        _ => Op { op: "b_into_vec".into(), h, ..Default::default() },
                    });
                }
                (3, H::V(_)) => return Some(Op { op: "v_into_bytes".into(), h, ..Default::default() }),
                _ => continue,
            }
        }
    }

    pub fn next(&mut self, m: &Machine) -> Op {
        let op = self.next0(m);
        if op.op == "m_unsplit" {
            self.joined = Some(op.h);
        }
        op
    }

    fn next0(&mut self, m: &Machine) -> Op {
        if let Some(h) = self.joined.take() {
            if self.pending.is_none() && matches!(m.hs.get(h), Some(Some(H::M(_)))) && self.r.chance(40) {
                return if self.r.chance(50) {
                    Op { op: "m_fill_spare".into(), h, ..Default::default() }
                } else {
                    Op { op: "m_extend".into(), h, a: rel("spare", 0), ..Default::default() }
                };
            }
        }
        if self.profile == "adjacent" {
            return self.next_adjacent(m);
        }
        if self.focus.is_none() && self.r.chance(10) {
            let live = m.live_ids();
            if !live.is_empty() {
                self.focus = Some(live[self.r.below(live.len())]);
                self.focus_left = 0; // stage counter
            }
        }
        if self.focus.is_some() {
            if let Some(op) = self.next_focus(m) {
                return op;
            }
        }
        let live = m.live_ids();
        let mutc = self.profile == "mut";
        if live.is_empty() || (live.len() < self.maxh && self.r.chance(if live.len() < 2 { 60 } else { 12 })) {
            // constructor
            let n = self.r.below(self.maxlen + 1);
            let k = if mutc { 6 + self.r.below(4) } else { self.r.below(11) };
            return match k {
                0 => Op { op: "b_new".into(), mode: self.r.below(2) as i64, ..Default::default() },
                1 => Op { op: "b_static".into(), a: abs(self.r.below(64)), b: abs(n), mode: self.r.below(3) as i64, ..Default::default() },
                2 => Op { op: "b_from_vec".into(), a: abs(n), b: abs(self.r.below(4)), mode: (self.r.below(3) == 0) as i64, ..Default::default() },
                3 => Op { op: "b_from_box".into(), a: abs(n), ..Default::default() },
                4 => Op { op: "b_copy".into(), a: abs(n), ..Default::default() },
                5 => Op { op: "b_from_owner".into(), a: abs(n.max(1)), mode: if self.r.chance(10) { 1 } else if self.r.chance(15) { 2 } else if self.r.chance(12) { 3 } else if self.r.chance(20) { 4 } else { 0 }, ..Default::default() },
                6 => Op { op: "m_new".into(), mode: self.r.below(2) as i64, ..Default::default() },
                7 => {
                    let c = if self.r.chance(25) { [16, 17, 32, 33, 48, 64, 65][self.r.below(7)] } else { self.r.below(2 * self.maxlen + 1) };
                    Op { op: "m_with_capacity".into(), a: abs(c), ..Default::default() }
                }
                8 => Op { op: "m_zeroed".into(), a: abs(n), ..Default::default() },
                9 => Op { op: "m_from_slice".into(), a: abs(n), mode: if self.r.chance(40) { 0 } else { 1 + self.r.below(6) as i64 }, ..Default::default() },
                _ => Op { op: "b_from_iter".into(), a: abs(n), mode: self.r.below(3) as i64, ..Default::default() },
            };
        }
        let h = live[self.r.below(live.len())];
        let room = live.len() < self.maxh;
        match m.hs[h].as_ref().unwrap() {
            H::B(b) => {
                let len = b.len();
                loop {
                    let k = self.r.below(16);
                    let op = match k {
                        0 if room => Op { op: "b_clone".into(), h, ..Default::default() },
                        1 if room => {
                            let (x, y) = {
                                let x = self.r.below(len + 1);
                                let y = x + self.r.below(len - x + 1);
                                (x, y)
                            };
                            if self.r.chance(self.bad_pct()) {
                                match self.r.below(4) {
                                    0 => Op { op: "b_slice".into(), h, a: abs(y + 1), b: abs(x), ..Default::default() },
                                    1 => Op { op: "b_slice".into(), h, a: abs(x), b: rel("len", 1), ..Default::default() },
                                    2 => Op { op: "b_slice".into(), h, a: abs(x), b: rel("max", 0), mode: 3, ..Default::default() },
                                    _ => Op { op: "b_slice".into(), h, a: rel("len", 1), b: rel("len", 1), ..Default::default() },
                                }
                            } else {
                                let mode = if self.r.chance(25) { [1, 2, 4, 5][self.r.below(4)] } else { 0 };
                                Op { op: "b_slice".into(), h, a: abs(x), b: abs(y), mode, ..Default::default() }
                            }
                        }
                        2 if room => {
                            let x = self.r.below(len + 1);
                            let y = x + self.r.below(len - x + 1);
                            let mode = match self.r.below(10) {
                                0 => 1,
                                1 => 2,
                                2 | 3 => 3,
                                _ => 0,
                            };
                            let mut o = live[self.r.below(live.len())];
                            let (mut x, mut y) = (x, y);
                            if mode == 3 {
                                // a sub-slice of ANOTHER handle: preferably one on the same buffer, with a
                                // range over its own length (it may start inside self and run past its end)
                                let me = m.view(h);
                                let sh: Vec<usize> = live
                                    .iter()
                                    .copied()
                                    .filter(|&g| g != h && matches!(m.hs[g], Some(H::B(_))) && m.view(g).map(|w| me.as_ref().map(|v| v.a == w.a && v.a != -100).unwrap_or(false)).unwrap_or(false))
                                    .collect();
                                if !sh.is_empty() && self.r.chance(70) {
                                    o = sh[self.r.below(sh.len())];
                                }
                                if let Some(w) = m.view(o) {
                                    x = self.r.below(w.len + 1);
                                    y = x + self.r.below(w.len - x + 1);
                                }
                            }
                            Op { op: "b_slice_ref".into(), h, o, a: abs(x), b: abs(y), mode, ..Default::default() }
                        }
                        3 if room => Op { op: "b_split_off".into(), h, a: self.index(len), ..Default::default() },
                        4 if room => Op { op: "b_split_to".into(), h, a: self.index(len), ..Default::default() },
                        5 => Op { op: "b_truncate".into(), h, a: self.index(len), ..Default::default() },
                        6 if self.r.chance(30) => Op { op: "b_clear".into(), h, ..Default::default() },
                        7 => Op { op: if self.r.chance(35) { "b_copy_to_slice" } else { "b_advance" }.into(), h, a: self.index(len), ..Default::default() },
                        8 if room => Op { op: "b_copy_to_bytes".into(), h, a: self.index(len), ..Default::default() },
                        9 => Op { op: "b_into_vec".into(), h, ..Default::default() },
                        10 => Op { op: "b_into_mut".into(), h, ..Default::default() },
                        11 | 12 => Op { op: "b_try_into_mut".into(), h, ..Default::default() },
                        13 | 14 => Op { op: "drop".into(), h, ..Default::default() },
                        15 if self.r.chance(50) => {
                            // clone_from another Bytes handle, preferably one at the same address or on the same buffer
                            let me = m.view(h);
                            let bs: Vec<usize> = live.iter().copied().filter(|&g| g != h && matches!(m.hs[g], Some(H::B(_)))).collect();
                            if bs.is_empty() {
                                continue;
                            }
                            let near: Vec<usize> = bs
                                .iter()
                                .copied()
                                .filter(|&g| m.view(g).map(|w| me.as_ref().map(|v| (v.a == w.a || v.a2 == w.a || v.a == w.a2) && w.a != -100).unwrap_or(false)).unwrap_or(false))
                                .collect();
                            let o = if !near.is_empty() && self.r.chance(75) { near[self.r.below(near.len())] } else { bs[self.r.below(bs.len())] };
                            Op { op: "b_clone_from".into(), h, o, ..Default::default() }
                        }
                        _ => continue,
                    };
                    return op;
                }
            }
            H::M(mm) => {
                let len = mm.len();
                let cap = mm.capacity();
                loop {
                    let k = self.r.below(24);
                    let op = match k {
                        0 if room => Op { op: "m_split_off".into(), h, a: self.cap_index(len, cap), ..Default::default() },
                        1 if room => Op { op: "m_split_to".into(), h, a: self.index(len), ..Default::default() },
                        2 if room => Op { op: "m_split".into(), h, ..Default::default() },
                        3 => Op { op: "m_truncate".into(), h, a: self.index(len), mode: self.r.chance(25) as i64, ..Default::default() },
                        4 if self.r.chance(30) => Op { op: "m_clear".into(), h, ..Default::default() },
                        5 => {
                            let a = if self.r.chance(self.bad_pct()) { rel("imax", 1) } else { abs(self.r.below(2 * self.maxlen + 1)) };
                            Op { op: "m_resize".into(), h, a, val: if self.r.chance(30) { 0 } else { 200 + self.r.below(16) as u8 }, ..Default::default() }
                        }
                        6 | 7 => Op { op: "m_reserve".into(), h, a: self.reserve_arg(), ..Default::default() },
                        8 | 9 => Op { op: "m_try_reclaim".into(), h, a: self.reserve_arg(), ..Default::default() },
                        10 | 11 => {
                            // lengths relative to the spare capacity: exactly full, one short of it, one beyond
                            let a = match self.r.below(8) {
                                0 => rel("spare", 0),
                                1 if cap > len => rel("spare", -1),
                                2 => rel("spare", 1),
                                _ => abs(self.r.below(self.maxlen + 1)),
                            };
                            Op { op: "m_extend".into(), h, a, mode: self.r.below(14) as i64, ..Default::default() }
                        }
                        12 if self.r.chance(self.bad_pct()) => Op { op: "m_put_bytes".into(), h, a: rel("max", -([0i64, 1, 3, 7][self.r.below(4)])), val: 200 + self.r.below(16) as u8, ..Default::default() },
                        12 => Op { op: "m_put_bytes".into(), h, a: abs(self.r.below(self.maxlen + 1)), val: 200 + self.r.below(16) as u8, ..Default::default() },
                        13 => Op { op: "m_fill_spare".into(), h, ..Default::default() },
                        14 => Op { op: "m_write_at".into(), h, a: abs(self.r.below(64)), val: 220 + self.r.below(16) as u8, ..Default::default() },
                        15 => Op { op: if self.r.chance(35) { "m_copy_to_slice" } else { "m_advance" }.into(), h, a: self.index(len), ..Default::default() },
                        16 => {
                            let others: Vec<usize> = live.iter().copied().filter(|&o| o != h && matches!(m.hs[o], Some(H::M(_)))).collect();
                            if others.is_empty() {
                                continue;
                            }
                            let o = others[self.r.below(others.len())];
                            Op { op: "m_unsplit".into(), h, o, ..Default::default() }
                        }
                        17 | 18 => Op { op: "m_freeze".into(), h, mode: self.r.below(2) as i64, ..Default::default() },
                        19 => Op { op: "m_into_vec".into(), h, ..Default::default() },
                        20 if self.r.chance(40) => {
                            let others: Vec<usize> = live.iter().copied().filter(|&o| o != h && matches!(m.hs[o], Some(H::M(_)))).collect();
                            if others.is_empty() {
                                continue;
                            }
                            let o = others[self.r.below(others.len())];
                            Op { op: "m_clone_from".into(), h, o, ..Default::default() }
                        }
                        20 if room => Op { op: "m_clone".into(), h, ..Default::default() },
                        21 if room => Op { op: "m_copy_to_bytes".into(), h, a: self.index(len), ..Default::default() },
                        22 => Op { op: "drop".into(), h, ..Default::default() },
                        23 if self.r.chance(30) => Op { op: "m_chunk_mut_fill".into(), h, ..Default::default() },
                        _ => continue,
                    };
                    return op;
                }
            }
            H::V(_) => {
                if self.r.chance(70) {
                    Op { op: "v_into_bytes".into(), h, ..Default::default() }
                } else {
                    Op { op: "drop".into(), h, ..Default::default() }
                }
            }
        }
    }

    pub fn drop_order(&mut self, m: &Machine) -> Vec<usize> {
        let mut ids = m.live_ids();
        // Fisher-Yates
        for i in (1..ids.len()).rev() {
            let j = self.r.below(i + 1);
            ids.swap(i, j);
        }
        ids
    }
}

//! Handle-program interpreter (bindings G and V of DESIGN.md): executes programs over real
//! `Bytes` / `BytesMut` / `Vec<u8>` handles and records one ndjson event per operation with
//! the full projected state (Appendix A.1).  Programs come from TLC (`--programs FILE`) or
//! from the built-in seeded random driver (`--random`).
use bytes::{Buf, BufMut, Bytes, BytesMut};
use std::fmt::Write as _;
use std::io::Write as _;
use std::panic::{catch_unwind, AssertUnwindSafe};
use std::sync::atomic::{AtomicUsize, Ordering};
use vh_alloc as la;

mod gen;
#[cfg(feature = "std")]
mod hostile;
mod recycle;

#[global_allocator]
static GLOBAL: la::Ledger = la::Ledger;

pub const ARENA_LEN: usize = 256;
static ARENA: [u8; ARENA_LEN] = {
    let mut a = [0u8; ARENA_LEN];
    let mut i = 0;
    while i < ARENA_LEN {
        a[i] = (i % 100) as u8 + 1;
        i += 1;
    }
    a
};
static FOREIGN: [u8; 16] = [121, 122, 123, 124, 125, 126, 127, 121, 122, 123, 124, 125, 126, 127, 121, 122];

const NOWN: usize = 64;
static OWN_ASREF: [AtomicUsize; NOWN] = [const { AtomicUsize::new(0) }; NOWN];
static OWN_DROP: [AtomicUsize; NOWN] = [const { AtomicUsize::new(0) }; NOWN];

struct Owner {
    k: usize,
    data: Vec<u8>,
    panic_in_asref: bool,
    /// the owner's destructor panics (once, and never while another panic unwinds)
    panic_in_drop: bool,
}
/// set by an owner whose Drop panics: the operation in progress released its last handle, the
/// panic is the owner's, not the crate's (outcome `opanic`, judged like a drop of the handle)
static OPANIC: std::sync::atomic::AtomicBool = std::sync::atomic::AtomicBool::new(false);
impl AsRef<[u8]> for Owner {
    fn as_ref(&self) -> &[u8] {
        OWN_ASREF[self.k].fetch_add(1, Ordering::SeqCst);
        if self.panic_in_asref {
            panic!("owner as_ref panics");
        }
        &self.data
    }
}
impl Drop for Owner {
    fn drop(&mut self) {
        OWN_DROP[self.k].fetch_add(1, Ordering::SeqCst);
        if self.panic_in_drop && !std::thread::panicking() {
            OPANIC.store(true, Ordering::SeqCst);
            panic!("owner drop panics");
        }
    }
}

/// zero-sized owners (a guard / lease over memory that lives elsewhere): identity through the
/// type parameter, the bytes through a table
const NZST: usize = 4;
static ZMEM: [(AtomicUsize, AtomicUsize); NZST] = [const { (AtomicUsize::new(0), AtomicUsize::new(0)) }; NZST];
static ZK: [AtomicUsize; NZST] = [const { AtomicUsize::new(0) }; NZST];
struct ZOwner<const S: usize>;
impl<const S: usize> AsRef<[u8]> for ZOwner<S> {
    fn as_ref(&self) -> &[u8] {
        OWN_ASREF[ZK[S].load(Ordering::SeqCst)].fetch_add(1, Ordering::SeqCst);
        unsafe { std::slice::from_raw_parts(ZMEM[S].0.load(Ordering::SeqCst) as *const u8, ZMEM[S].1.load(Ordering::SeqCst)) }
    }
}
impl<const S: usize> Drop for ZOwner<S> {
    fn drop(&mut self) {
        OWN_DROP[ZK[S].load(Ordering::SeqCst)].fetch_add(1, Ordering::SeqCst);
    }
}

pub enum H {
    B(Bytes),
    M(BytesMut),
    V(Vec<u8>),
}

pub const MAXW: i64 = (1 << 30) - 1;
pub const IMAXW: i64 = (1 << 29) - 1;

/// machine word -> trace word (Appendix D)
pub fn enc(x: usize) -> i64 {
    const BAND: usize = 1 << 27;
    let imax = isize::MAX as usize;
    if x < (1 << 28) {
        x as i64
    } else if x >= imax - BAND && x <= imax + BAND {
        if x >= imax {
            IMAXW + (x - imax) as i64
        } else {
            IMAXW - (imax - x) as i64
        }
    } else if usize::MAX - x < BAND {
        MAXW - (usize::MAX - x) as i64
    } else {
        -1
    }
}

#[derive(Clone, Debug)]
pub enum Arg {
    Abs(usize),
    Rel(String, i64),
}

#[derive(Clone, Debug, Default)]
pub struct Op {
    pub op: String,
    pub h: usize,
    pub o: usize,
    pub a: Option<Arg>,
    pub b: Option<Arg>,
    pub mode: i64,
    pub val: u8,
}

pub struct Machine {
    pub hs: Vec<Option<H>>, // index = handle id (0 unused)
    pub fresh: u8,
    pub owners: Vec<(usize, usize)>, // base,len of owner k's memory
    zmem: Vec<Vec<u8>>,              // the bytes behind the zero-sized owners of this program
    pub out: String,
    pub evno: usize,
    pub evbuf: Vec<la::Event>,
    pub nsteps: usize,
    pub log_contents: bool,
    pub sink: Option<std::fs::File>,
}

fn fresh_bytes(m: &mut Machine, n: usize) -> Vec<u8> {
    let mut v = Vec::with_capacity(n);
    for _ in 0..n {
        v.push(m.fresh);
        m.fresh = if m.fresh >= 120 { 1 } else { m.fresh + 1 };
    }
    v
}

pub struct View {
    pub ty: char,
    pub a: i64,
    pub off: i64,
    /// second candidate (block ending exactly at the address), 0 if none
    pub a2: i64,
    pub off2: i64,
    /// block that holds the last byte of the view (differs from `a` if the view spans blocks)
    pub ae: i64,
    pub len: usize,
    pub cap: usize,
    pub asz: usize,
    pub uniq: bool,
}

impl Machine {
    pub fn new() -> Machine {
        Machine {
            hs: vec![None],
            fresh: 1,
            owners: Vec::new(),
            zmem: Vec::new(),
            out: String::with_capacity(1 << 20),
            evno: 0,
            evbuf: Vec::with_capacity(1 << 14),
            nsteps: 0,
            log_contents: true,
            sink: None,
        }
    }

    pub fn locate(&self, addr: usize, len: usize) -> (i64, i64, usize) {
        let ab = ARENA.as_ptr() as usize;
        if addr >= ab && addr <= ab + ARENA_LEN {
            return (-1, (addr - ab) as i64, ARENA_LEN);
        }
        let fb = FOREIGN.as_ptr() as usize;
        if addr >= fb && addr <= fb + FOREIGN.len() {
            return (-1, (ARENA_LEN + 64 + addr - fb) as i64, ARENA_LEN);
        }
        for (k, &(b, l)) in self.owners.iter().enumerate() {
            if l > 0 && addr >= b && addr <= b + l {
                return (-2 - k as i64, (addr - b) as i64, l);
            }
        }
        let _ = len;
        match la::locate(addr) {
            Some(loc) => (loc.id as i64, loc.off as i64, loc.size),
            None => (-100, 0, 0),
        }
    }

    fn locate_alt(&self, addr: usize, a: i64) -> (i64, i64) {
        if a <= 0 {
            return (0, 0);
        }
        match la::locate_end(addr, a as u32) {
            Some(l) => (l.id as i64, l.off as i64),
            None => (0, 0),
        }
    }

    fn locate_last(&self, addr: usize, len: usize, a: i64) -> i64 {
        if a <= 0 || len == 0 || len > (1 << 20) {
            return a;
        }
        match la::locate(addr + len - 1) {
            Some(l) => l.id as i64,
            None => 0,
        }
    }

    pub fn view(&self, id: usize) -> Option<View> {
        match self.hs.get(id)?.as_ref()? {
            H::B(b) => {
                let (a, off, asz) = self.locate(b.as_ptr() as usize, b.len());
                let (a2, off2) = self.locate_alt(b.as_ptr() as usize, a);
                let ae = self.locate_last(b.as_ptr() as usize, b.len(), a);
                Some(View { ty: 'B', a, off, a2, off2, ae, len: b.len(), cap: b.len(), asz, uniq: b.is_unique() })
            }
            H::M(m) => {
                let (a, off, asz) = self.locate(m.as_ptr() as usize, m.len());
                let (a2, off2) = self.locate_alt(m.as_ptr() as usize, a);
                let ae = self.locate_last(m.as_ptr() as usize, m.len(), a);
                Some(View { ty: 'M', a, off, a2, off2, ae, len: m.len(), cap: m.capacity(), asz, uniq: false })
            }
            H::V(v) => {
                let (a, off, asz) = if v.capacity() == 0 {
                    (-100, 0, 0)
                } else {
                    self.locate(v.as_ptr() as usize, v.len())
                };
                Some(View { ty: 'V', a, off, a2: 0, off2: 0, ae: a, len: v.len(), cap: v.capacity(), asz, uniq: false })
            }
        }
    }

    pub fn flush(&mut self) {
        if let Some(f) = self.sink.as_mut() {
            f.write_all(self.out.as_bytes()).expect("write trace");
            self.out.clear();
        }
    }

    pub fn live_ids(&self) -> Vec<usize> {
        (1..self.hs.len()).filter(|&i| self.hs[i].is_some()).collect()
    }

    fn resolve(&self, h: usize, a: &Option<Arg>) -> usize {
        match a {
            None => 0,
            Some(Arg::Abs(v)) => *v,
            Some(Arg::Rel(base, d)) => {
                let v = self.view(h);
                let (len, cap, asz, off) = match &v {
                    Some(v) => (v.len as i128, v.cap as i128, if v.a > 0 { v.asz as i128 } else { v.len as i128 }, v.off as i128),
                    None => (0, 0, 0, 0),
                };
                let max = usize::MAX as i128;
                let imax = isize::MAX as i128;
                let b: i128 = match base.as_str() {
                    "len" => len,
                    "cap" => cap,
                    "spare" => cap - len,
                    "asz" => asz,
                    "aszlen" => asz - len,
                    "off" => off,
                    "max" => max,
                    "imax" => imax,
                    "maxlen" => max - len,
                    "imaxlen" => imax - len,
                    "maxcap" => max - cap,
                    _ => 0,
                };
                let r = b + *d as i128;
                r.clamp(0, max) as usize
            }
        }
    }

    fn put(&mut self, h: H) -> usize {
        self.hs.push(Some(h));
        self.hs.len() - 1
    }

    fn jbytes(out: &mut String, d: &[u8]) {
        out.push('[');
        for (i, x) in d.iter().enumerate() {
            if i > 0 {
                out.push(',');
            }
            let _ = write!(out, "{}", x);
        }
        out.push(']');
    }

    fn observe(&mut self) {
        let ids = self.live_ids();
        let mut s = String::new();
        s.push_str(",\"obs\":[");
        let mut first = true;
        for id in ids {
            let v = self.view(id).unwrap();
            if !first {
                s.push(',');
            }
            first = false;
            let _ = write!(
                s,
                "{{\"h\":{},\"ty\":\"{}\",\"a\":{},\"off\":{},\"a2\":{},\"off2\":{},\"ae\":{},\"len\":{},\"cap\":{},\"u\":{},\"d\":",
                id,
                v.ty,
                v.a,
                enc(v.off as usize),
                v.a2,
                v.off2,
                v.ae,
                enc(v.len),
                enc(v.cap),
                v.uniq
            );
            let readable = v.len <= 16384 && self.log_contents && (v.a != -100 || v.len == 0);      // 16384 = LogLimit of BytesLaws.tla
            if readable {
                // the contents are read through a different public accessor each time (all of
                // them must show the same bytes): Deref, AsRef, Borrow, Buf::chunk, iter(),
                // IntoIterator for &T, to_vec; for BytesMut also AsMut / BorrowMut / DerefMut and a
                // by-value iteration over a (deep) clone
                let how = (self.evno + id) % 8;
                let tmp: Vec<u8>;
                let d: &[u8] = match self.hs[id].as_mut().unwrap() {
                    H::B(b) => match how {
                        1 => AsRef::<[u8]>::as_ref(&*b),
                        2 => std::borrow::Borrow::<[u8]>::borrow(&*b),
                        3 => Buf::chunk(&*b),
                        4 => {
                            tmp = b.iter().copied().collect();
                            &tmp
                        }
                        5 => {
                            tmp = (&*b).into_iter().copied().collect();
                            &tmp
                        }
                        6 => {
                            tmp = b.to_vec();
                            &tmp
                        }
                        _ => &b[..],
                    },
                    H::M(m) => match how {
                        1 => AsRef::<[u8]>::as_ref(&*m),
                        2 => std::borrow::Borrow::<[u8]>::borrow(&*m),
                        3 => Buf::chunk(&*m),
                        4 => {
                            tmp = (&*m).into_iter().copied().collect();
                            &tmp
                        }
                        5 => {
                            tmp = m.clone().into_iter().collect();
                            &tmp
                        }
                        6 => std::borrow::BorrowMut::<[u8]>::borrow_mut(m),
                        7 => AsMut::<[u8]>::as_mut(m),
                        _ => &m[..],
                    },
                    H::V(v) => &v[..],
                };
                Self::jbytes(&mut s, d);
            } else {
                s.push_str("[]");
            }
            s.push('}');
        }
        s.push(']');
        // owners
        s.push_str(",\"own\":[");
        for k in 0..self.owners.len() {
            if k > 0 {
                s.push(',');
            }
            let _ = write!(
                s,
                "{{\"o\":{},\"size\":{},\"asref\":{},\"drops\":{}}}",
                k,
                self.owners[k].1,
                OWN_ASREF[k].load(Ordering::SeqCst),
                OWN_DROP[k].load(Ordering::SeqCst)
            );
        }
        s.push(']');
        self.out.push_str(&s);
    }

    fn mem_events(&mut self) {
        la::check_guards();
        self.evbuf.clear();
        let lost = la::drain_events(&mut self.evbuf);
        let mut s = String::new();
        s.push_str(",\"mem\":[");
        let mut first = true;
        for e in &self.evbuf {
            if !first {
                s.push(',');
            }
            first = false;
            match e.kind {
                la::EvKind::Alloc => {
                    let _ = write!(s, "{{\"e\":\"alloc\",\"id\":{},\"size\":{},\"align\":{},\"par\":{},\"org\":{}}}", e.id, enc(e.size), e.align, e.par, e.origin);
                }
                la::EvKind::Free => {
                    let _ = write!(s, "{{\"e\":\"free\",\"id\":{},\"size\":{},\"align\":{},\"rsize\":{},\"ralign\":{},\"org\":{}}}", e.id, enc(e.size), e.align, enc(e.rsize), e.ralign, e.origin);
                }
                la::EvKind::BadFree => {
                    let _ = write!(s, "{{\"e\":\"bad_free\",\"id\":{},\"size\":{},\"align\":{},\"why\":{}}}", e.id, enc(e.size), e.align, e.aux);
                }
                la::EvKind::RedZone => {
                    let _ = write!(s, "{{\"e\":\"redzone\",\"id\":{}}}", e.id);
                }
                la::EvKind::Poison => {
                    let _ = write!(s, "{{\"e\":\"poison\",\"id\":{}}}", e.id);
                }
            }
        }
        if lost > 0 {
            let _ = write!(s, "{}{{\"e\":\"lost\",\"id\":{}}}", if first { "" } else { "," }, lost);
        }
        s.push(']');
        self.out.push_str(&s);
    }

    pub fn reset(&mut self, pid: usize, par: u8) {
        self.reset_p(pid, par, 0)
    }

    pub fn reset_p(&mut self, pid: usize, par: u8, placement: u8) {
        // drop anything left (outside any law), forget ledger
        self.hs.clear();
        self.hs.push(None);
        self.zmem.clear();
        la::reset();
        self.owners.clear();
        for k in 0..NOWN {
            OWN_ASREF[k].store(0, Ordering::SeqCst);
            OWN_DROP[k].store(0, Ordering::SeqCst);
        }
        self.fresh = 1;
        self.evno = 0;
        la::set_parity(par);
        la::set_placement(placement);
        let _ = writeln!(self.out, "{{\"i\":0,\"op\":\"reset\",\"h\":0,\"pid\":{},\"par\":{},\"placement\":{}}}", pid, par, placement);
    }

    /// Execute one operation and append its event line.
    pub fn step(&mut self, op: &Op) -> bool {
        let h = op.h;
        let x = self.resolve(h, &op.a);
        let y = self.resolve(h, &op.b);
        self.evno += 1;
        self.nsteps += 1;
        let name = op.op.as_str();
        let (mut x, mut y) = (x, y);
        let uses_o = name == "m_unsplit" || name == "b_clone_from" || name == "m_clone_from" || (name == "b_slice_ref" && op.mode == 3);
        if uses_o && (op.o == h || self.hs.get(op.o).map(|x| x.is_none()).unwrap_or(true)) {
            self.evno -= 1;
            return false;
        }
        if name == "b_slice_ref" && (op.mode == 0 || op.mode == 3) {
            let who = if op.mode == 0 { h } else { op.o };
            let l = self.view(who).map(|v| v.len).unwrap_or(0);
            let (bx, ey) = (x.min(l), y.min(l));
            let (bx, ey) = if bx <= ey { (bx, ey) } else { (ey, bx) };
            x = bx;
            y = ey;
        }
        let mut args = String::new();
        let _ = write!(args, "\"x\":{},\"y\":{},\"mode\":{},\"o\":{}", enc(x), enc(y), op.mode, if uses_o { op.o } else { 0 });
        let mut newids: Vec<usize> = Vec::new();
        let mut retv: Option<i64> = None;
        let mut data: Option<Vec<u8>> = None;
        let name = op.op.as_str();
        if name == "m_zeroed" {
            data = Some(vec![0u8; x.min(1 << 16)]);
        }
        if name == "b_static" {
            let off = x.min(ARENA_LEN);
            let len = y.min(ARENA_LEN - off);
            data = Some(ARENA[off..off + len].to_vec());
        }
        // ---- preparation outside the window
        let ty = match self.hs.get(h).and_then(|x| x.as_ref()) {
            Some(H::B(_)) => 'B',
            Some(H::M(_)) => 'M',
            Some(H::V(_)) => 'V',
            None => '-',
        };
        let needs_handle = !matches!(
            name,
            "b_new" | "b_static" | "b_from_vec" | "b_from_box" | "b_copy" | "b_from_owner" | "m_new" | "m_with_capacity" | "m_zeroed" | "m_from_slice" | "b_from_iter"
        );
        if needs_handle {
            let want = match name.as_bytes()[0] {
                b'b' => 'B',
                b'm' => 'M',
                b'v' => 'V',
                _ => ty,
            };
            if ty == '-' || (want != ty && name != "drop") {
                self.evno -= 1;
                return false; // ill-typed program step: skipped, not logged
            }
        }
        let nfresh = match name {
            "b_from_vec" | "b_from_box" | "b_copy" | "b_from_iter" | "m_from_slice" => x.min(1 << 16),
            "b_from_owner" => if op.mode == 2 { 0 } else { x.max(1).min(1 << 16) },     // mode 2: an owner with an empty slice
            "m_extend" => x.min(4096),
            _ => 0,
        };
        let d: Vec<u8> = fresh_bytes(self, nfresh);
        if nfresh > 0 || name == "m_extend" {
            data = Some(d.clone());
        }
        // destination of copy_to_slice (allocated outside the window: not the crate's allocation)
        let mut cdst: Vec<u8> = if name.ends_with("_copy_to_slice") { vec![0u8; x.min(1 << 16)] } else { Vec::new() };
        // m_extend mode 13: text written one character at a time (fmt::Write::write_char and `{}` of a char),
        // one-, two- (Latin-1 and above) and three-byte characters; expected = std's UTF-8 encoding
        let mut wchars: Vec<char> = Vec::new();
        if name == "m_extend" && op.mode == 13 {
            wchars = d
                .iter()
                .map(|&b| {
                    char::from_u32(match b % 4 {
                        0 => 0x30 + b as u32 % 64,
                        1 => 0x80 + b as u32,
                        2 => 0x100 + b as u32 * 7,
                        _ => 0x800 + b as u32 * 31,
                    })
                    .unwrap_or('?')
                })
                .collect();
            data = Some(wchars.iter().collect::<String>().into_bytes());
        }
        self.hs.reserve(2);
        self.owners.reserve(1);
        self.zmem.reserve(1);
        newids.reserve(2);
        // what the event looks like if the process dies inside the call (the driver turns the
        // last intent line into an `abort` event)
        let _ = writeln!(
            self.out,
            "#intent {{\"i\":{},\"op\":\"{}\",\"h\":{},\"ty\":\"{}\",\"args\":{{{},\"val\":{}}},\"out\":{{\"k\":\"abort\",\"new\":[],\"v\":-9}},\"mem\":[],\"obs\":[],\"own\":[]}}",
            self.evno, name, h, ty, args, op.val
        );
        self.flush();
        let prev = la::set_window(1);
        let res = catch_unwind(AssertUnwindSafe(|| -> Result<(), ()> {
            match name {
                // ---------------- constructors
                "b_new" => {
                    let b = if op.mode == 1 { Bytes::default() } else { Bytes::new() };
                    newids.push(self.put(H::B(b)));
                }
                "b_static" => {
                    let off = x.min(ARENA_LEN);
                    let len = y.min(ARENA_LEN - off);
                    let b = match op.mode {
                        1 => Bytes::from(&ARENA[off..off + len]),
                        2 => Bytes::from(std::str::from_utf8(&ARENA[off..off + len]).unwrap()),
                        _ => Bytes::from_static(&ARENA[off..off + len]),
                    };
                    newids.push(self.put(H::B(b)));
                }
                "b_from_vec" => {
                    // x = len, y = extra capacity; mode 1: the same through From<String>
                    let b = if op.mode == 1 {
                        let mut st = String::with_capacity(x + y);
                        st.push_str(std::str::from_utf8(&d).unwrap());
                        Bytes::from(st)
                    } else {
                        let mut v = Vec::with_capacity(x + y);
                        v.extend_from_slice(&d);
                        Bytes::from(v)
                    };
                    newids.push(self.put(H::B(b)));
                }
                "b_from_box" => {
                    let bx: Box<[u8]> = d.clone().into_boxed_slice();
                    let b = Bytes::from(bx);
                    newids.push(self.put(H::B(b)));
                }
                "b_copy" => {
                    let b = Bytes::copy_from_slice(&d);
                    newids.push(self.put(H::B(b)));
                }
                "b_from_iter" => {
                    let b: Bytes = match op.mode {
                        1 => {
                            let mut it = d.iter().copied();
                            std::iter::repeat(()).take(usize::MAX).map_while(move |_| it.next()).collect()
                        }
                        2 => {
                            let mut it = d.iter().copied();
                            std::iter::from_fn(move || it.next()).collect()
                        }
                        _ => d.iter().copied().collect(),
                    };
                    newids.push(self.put(H::B(b)));
                }
                "b_from_owner" => {
                    let k = self.owners.len();
                    if k >= NOWN {
                        return Err(());
                    }
                    la::set_window(2);
                    let mut dv = Vec::with_capacity(d.len().max(2));
                    dv.extend_from_slice(&d);
                    la::set_window(1);
                    // (an empty owner still has an address: its handles are located through it)
                    self.owners.push((dv.as_ptr() as usize, dv.len().max(1)));
                    // mode 4: a zero-sized owner (the first NZST of a program; then an ordinary one)
                    let slot = self.zmem.len();
                    let b = if op.mode == 4 && slot < NZST {
                        ZMEM[slot].0.store(dv.as_ptr() as usize, Ordering::SeqCst);
                        ZMEM[slot].1.store(dv.len(), Ordering::SeqCst);
                        ZK[slot].store(k, Ordering::SeqCst);
                        self.zmem.push(dv);
                        match slot {
                            0 => Bytes::from_owner(ZOwner::<0>),
                            1 => Bytes::from_owner(ZOwner::<1>),
                            2 => Bytes::from_owner(ZOwner::<2>),
                            _ => Bytes::from_owner(ZOwner::<3>),
                        }
                    } else {
                        Bytes::from_owner(Owner { k, data: dv, panic_in_asref: op.mode == 1, panic_in_drop: op.mode == 3 })
                    };
                    newids.push(self.put(H::B(b)));
                }
                "m_new" => {
                    newids.push(self.put(H::M(if op.mode == 1 { BytesMut::default() } else { BytesMut::new() })));
                }
                "m_with_capacity" => {
                    newids.push(self.put(H::M(BytesMut::with_capacity(x))));
                }
                "m_zeroed" => {
                    newids.push(self.put(H::M(BytesMut::zeroed(x))));
                }
                "m_from_slice" => {
                    // the other constructors that copy from borrowed data / an iterator
                    let m = match op.mode {
                        1 => BytesMut::from(std::str::from_utf8(&d).unwrap()),
                        2 => d.iter().copied().collect::<BytesMut>(),
                        3 => d.iter().collect::<BytesMut>(),
                        4 => {
                            let mut m = BytesMut::new();
                            std::fmt::Write::write_str(&mut m, std::str::from_utf8(&d).unwrap()).unwrap();
                            m
                        }
                        // honest iterators whose size hint is correct but loose: (0, Some(usize::MAX)) and (0, None)
                        5 => {
                            let mut it = d.iter().copied();
                            std::iter::repeat(()).take(usize::MAX).map_while(move |_| it.next()).collect::<BytesMut>()
                        }
                        6 => {
                            let mut it = d.iter().copied();
                            std::iter::from_fn(move || it.next()).collect::<BytesMut>()
                        }
                        _ => BytesMut::from(&d[..]),
                    };
                    newids.push(self.put(H::M(m)));
                }
                // ---------------- Bytes
                "b_clone" => {
                    let c = match self.hs[h].as_ref().unwrap() {
                        H::B(b) => b.clone(),
                        _ => unreachable!(),
                    };
                    newids.push(self.put(H::B(c)));
                }
                "b_clone_from" => {
                    // Clone::clone_from: the target handle h becomes a clone of the handle o
                    if op.o == h || !matches!(self.hs.get(op.o).and_then(|x| x.as_ref()), Some(H::B(_))) {
                        return Err(());
                    }
                    let mut t = match self.hs[h].take().unwrap() {
                        H::B(b) => b,
                        _ => unreachable!(),
                    };
                    if let Some(H::B(s)) = self.hs[op.o].as_ref() {
                        t.clone_from(s);
                    }
                    self.hs[h] = Some(H::B(t));
                }
                "m_clone_from" => {
                    // Clone::clone_from for BytesMut: the target takes the source's contents (its own buffer or a new one)
                    if op.o == h || !matches!(self.hs.get(op.o).and_then(|x| x.as_ref()), Some(H::M(_))) {
                        return Err(());
                    }
                    let mut t = match self.hs[h].take().unwrap() {
                        H::M(m) => m,
                        _ => unreachable!(),
                    };
                    if let Some(H::M(s)) = self.hs[op.o].as_ref() {
                        t.clone_from(s);
                    }
                    self.hs[h] = Some(H::M(t));
                }
                "b_slice" => {
                    let c = match self.hs[h].as_ref().unwrap() {
                        H::B(b) => match op.mode {
                            1 => b.slice(x..),
                            2 => b.slice(..y),
                            3 => b.slice(x..=y),
                            // the same ranges spelled with explicit bounds (exclusive start)
                            4 if x >= 1 => b.slice((std::ops::Bound::Excluded(x - 1), std::ops::Bound::Excluded(y))),
                            5 if x >= 1 => b.slice((std::ops::Bound::Excluded(x - 1), std::ops::Bound::Unbounded)),
                            5 => b.slice((std::ops::Bound::Unbounded, std::ops::Bound::<usize>::Unbounded)),
                            _ => b.slice(x..y),
                        },
                        _ => unreachable!(),
                    };
                    newids.push(self.put(H::B(c)));
                }
                "b_slice_ref" => {
                    // mode 0: &self[x..y] ; 1: foreign non-empty ; 2: foreign empty ; 3: &other[x..y]
                    let c = {
                        let me = match self.hs[h].as_ref().unwrap() {
                            H::B(b) => b,
                            _ => unreachable!(),
                        };
                        match op.mode {
                            0 => me.slice_ref(&me[x..y]),
                            1 => me.slice_ref(&FOREIGN[2..5]),
                            2 => me.slice_ref(&FOREIGN[2..2]),
                            _ => {
                                let other: &[u8] = match self.hs.get(op.o).and_then(|x| x.as_ref()) {
                                    Some(H::B(b)) => &b[..],
                                    Some(H::M(m)) => &m[..],
                                    Some(H::V(v)) => &v[..],
                                    None => &FOREIGN[..],
                                };
                                me.slice_ref(&other[x..y])
                            }
                        }
                    };
                    newids.push(self.put(H::B(c)));
                }
                "b_split_off" => {
                    let c = match self.hs[h].as_mut().unwrap() {
                        H::B(b) => b.split_off(x),
                        _ => unreachable!(),
                    };
                    newids.push(self.put(H::B(c)));
                }
                "b_split_to" => {
                    let c = match self.hs[h].as_mut().unwrap() {
                        H::B(b) => b.split_to(x),
                        _ => unreachable!(),
                    };
                    newids.push(self.put(H::B(c)));
                }
                "b_copy_to_bytes" => {
                    let c = match self.hs[h].as_mut().unwrap() {
                        H::B(b) => b.copy_to_bytes(x),
                        _ => unreachable!(),
                    };
                    newids.push(self.put(H::B(c)));
                }
                "b_truncate" => match self.hs[h].as_mut().unwrap() {
                    H::B(b) => b.truncate(x),
                    _ => unreachable!(),
                },
                "b_clear" => match self.hs[h].as_mut().unwrap() {
                    H::B(b) => b.clear(),
                    _ => unreachable!(),
                },
                "b_advance" => match self.hs[h].as_mut().unwrap() {
                    H::B(b) => b.advance(x),
                    _ => unreachable!(),
                },
                // Buf::copy_to_slice on the handle itself (the provided method for Bytes / BytesMut)
                "b_copy_to_slice" | "m_copy_to_slice" => {
                    match self.hs[h].as_mut().unwrap() {
                        H::B(b) => b.copy_to_slice(&mut cdst),
                        H::M(m) => m.copy_to_slice(&mut cdst),
                        _ => unreachable!(),
                    }
                    data = Some(std::mem::take(&mut cdst));
                }
                "b_into_vec" => {
                    let b = match self.hs[h].take().unwrap() {
                        H::B(b) => b,
                        _ => unreachable!(),
                    };
                    let v: Vec<u8> = b.into();
                    newids.push(self.put(H::V(v)));
                }
                "b_into_mut" => {
                    let b = match self.hs[h].take().unwrap() {
                        H::B(b) => b,
                        _ => unreachable!(),
                    };
                    let m: BytesMut = b.into();
                    newids.push(self.put(H::M(m)));
                }
                "b_try_into_mut" => {
                    let b = match self.hs[h].take().unwrap() {
                        H::B(b) => b,
                        _ => unreachable!(),
                    };
                    match b.try_into_mut() {
                        Ok(m) => {
                            retv = Some(1);
                            newids.push(self.put(H::M(m)));
                        }
                        Err(b) => {
                            retv = Some(0);
                            self.hs[h] = Some(H::B(b));
                        }
                    }
                }
                // ---------------- BytesMut
                "m_split_off" => {
                    let c = match self.hs[h].as_mut().unwrap() {
                        H::M(m) => m.split_off(x),
                        _ => unreachable!(),
                    };
                    newids.push(self.put(H::M(c)));
                }
                "m_split_to" => {
                    let c = match self.hs[h].as_mut().unwrap() {
                        H::M(m) => m.split_to(x),
                        _ => unreachable!(),
                    };
                    newids.push(self.put(H::M(c)));
                }
                "m_split" => {
                    let c = match self.hs[h].as_mut().unwrap() {
                        H::M(m) => m.split(),
                        _ => unreachable!(),
                    };
                    newids.push(self.put(H::M(c)));
                }
                "m_copy_to_bytes" => {
                    let c = match self.hs[h].as_mut().unwrap() {
                        H::M(m) => m.copy_to_bytes(x),
                        _ => unreachable!(),
                    };
                    newids.push(self.put(H::B(c)));
                }
                "m_truncate" => match self.hs[h].as_mut().unwrap() {
                    // mode 1: shortening through set_len (in contract: x <= len, all bytes initialised)
                    H::M(m) if op.mode == 1 && x <= m.len() => unsafe { m.set_len(x) },
                    H::M(m) => m.truncate(x),
                    _ => unreachable!(),
                },
                "m_clear" => match self.hs[h].as_mut().unwrap() {
                    H::M(m) => m.clear(),
                    _ => unreachable!(),
                },
                "m_resize" => match self.hs[h].as_mut().unwrap() {
                    H::M(m) => m.resize(x, op.val),
                    _ => unreachable!(),
                },
                "m_reserve" => match self.hs[h].as_mut().unwrap() {
                    H::M(m) => m.reserve(x),
                    _ => unreachable!(),
                },
                "m_try_reclaim" => match self.hs[h].as_mut().unwrap() {
                    H::M(m) => retv = Some(m.try_reclaim(x) as i64),
                    _ => unreachable!(),
                },
                "m_extend" => {
                    match self.hs[h].as_mut().unwrap() {
                        H::M(m) => match op.mode {
                            1 => m.put_slice(&d),
                            2 => m.put(&d[..]),
                            3 => m.extend(d.iter()),
                            4 => {
                                for &b in &d {
                                    m.put_u8(b)
                                }
                            }
                            5 => m.extend(d.iter().copied()),
                            6 => {
                                // Extend<Bytes>: two chunks
                                let k = d.len() / 2;
                                let parts = [Bytes::copy_from_slice(&d[..k]), Bytes::copy_from_slice(&d[k..])];
                                m.extend(parts);
                            }
                            7 => std::fmt::Write::write_str(m, std::str::from_utf8(&d).unwrap()).unwrap(),
                            8 => {
                                let mut r: &mut BytesMut = m;
                                BufMut::put_slice(&mut r, &d)
                            }
                            9 => m.put(Bytes::copy_from_slice(&d).chain(&[][..])),
                            12 => {
                                use std::fmt::Write as _;
                                write!(m, "{}{}", std::str::from_utf8(&d[..d.len() / 2]).unwrap(), std::str::from_utf8(&d[d.len() / 2..]).unwrap()).unwrap()
                            }
                            13 => {
                                use std::fmt::Write as _;
                                for (i, c) in wchars.iter().enumerate() {
                                    if i % 2 == 0 {
                                        write!(m, "{}", c).unwrap()
                                    } else {
                                        m.write_char(*c).unwrap()
                                    }
                                }
                            }
                            10 => {
                                let mut it = d.iter().copied();
                                m.extend(std::iter::repeat(()).take(usize::MAX).map_while(move |_| it.next()))
                            }
                            11 => {
                                let mut it = d.iter().copied();
                                m.extend(std::iter::from_fn(move || it.next()))
                            }
                            _ => m.extend_from_slice(&d),
                        },
                        _ => unreachable!(),
                    }
                }
                "m_put_bytes" => match self.hs[h].as_mut().unwrap() {
                    // (counts that are not representable are passed on as they are: the call must panic)
                    H::M(m) => m.put_bytes(op.val, if x > usize::MAX / 2 { x } else { x.min(4096) }),
                    _ => unreachable!(),
                },
                "m_fill_spare" => match self.hs[h].as_mut().unwrap() {
                    H::M(m) => {
                        let sp = m.spare_capacity_mut();
                        let n = sp.len();
                        if n <= 1 << 16 {
                            for (i, s) in sp.iter_mut().enumerate() {
                                s.write(0xE0 + (i % 16) as u8);
                            }
                        }
                        retv = Some(enc(n));
                    }
                    _ => unreachable!(),
                },
                "m_chunk_mut_fill" => match self.hs[h].as_mut().unwrap() {
                    // note: chunk_mut() on a full buffer reserves 64 bytes first
                    H::M(m) => {
                        let c = m.chunk_mut();
                        let n = c.len();
                        if n <= 1 << 16 {
                            for i in 0..n {
                                c.write_byte(i, 0xE0 + (i % 16) as u8);
                            }
                        }
                        retv = Some(enc(n));
                    }
                    _ => unreachable!(),
                },
                "m_write_at" => match self.hs[h].as_mut().unwrap() {
                    H::M(m) => {
                        let l = m.len();
                        if l > 0 {
                            let i = x % l;
                            m[i] = op.val;
                            retv = Some(i as i64);
                        } else {
                            retv = Some(-1);
                        }
                    }
                    _ => unreachable!(),
                },
                "m_advance" => match self.hs[h].as_mut().unwrap() {
                    H::M(m) => m.advance(x),
                    _ => unreachable!(),
                },
                "m_unsplit" => {
                    if op.o == h || !matches!(self.hs.get(op.o).and_then(|x| x.as_ref()), Some(H::M(_))) {
                        return Err(());
                    }
                    let other = match self.hs[op.o].take().unwrap() {
                        H::M(m) => m,
                        _ => unreachable!(),
                    };
                    match self.hs[h].as_mut().unwrap() {
                        H::M(m) => m.unsplit(other),
                        _ => unreachable!(),
                    }
                }
                "m_freeze" => {
                    let m = match self.hs[h].take().unwrap() {
                        H::M(m) => m,
                        _ => unreachable!(),
                    };
                    newids.push(self.put(H::B(if op.mode == 1 { Bytes::from(m) } else { m.freeze() })));
                }
                "m_into_vec" => {
                    let m = match self.hs[h].take().unwrap() {
                        H::M(m) => m,
                        _ => unreachable!(),
                    };
                    let v: Vec<u8> = m.into();
                    newids.push(self.put(H::V(v)));
                }
                "m_clone" => {
                    let c = match self.hs[h].as_ref().unwrap() {
                        H::M(m) => m.clone(),
                        _ => unreachable!(),
                    };
                    newids.push(self.put(H::M(c)));
                }
                // ---------------- Vec
                "v_into_bytes" => {
                    let v = match self.hs[h].take().unwrap() {
                        H::V(v) => v,
                        _ => unreachable!(),
                    };
                    newids.push(self.put(H::B(Bytes::from(v))));
                }
                "drop" => {
                    let x = self.hs[h].take();
                    drop(x);
                }
                _ => return Err(()),
            }
            Ok(())
        }));
        // the panic payload (a boxed String) is freed inside the window
        let outk = match res {
            Ok(Ok(())) => "ok",
            Ok(Err(())) => "skip",
            Err(p) => {
                drop(p);
                if OPANIC.swap(false, Ordering::SeqCst) {
                    "opanic"
                } else {
                    "panic"
                }
            }
        };
        la::set_window(prev);
        if outk == "skip" {
            self.evno -= 1;
            let mut tmp = Vec::with_capacity(64);
            la::drain_events(&mut tmp);
            return false;
        }
        let _ = write!(self.out, "{{\"i\":{},\"op\":\"{}\",\"h\":{},\"ty\":\"{}\",\"args\":{{{}", self.evno, name, h, ty, args);
        if let Some(d) = &data {
            self.out.push_str(",\"data\":");
            Self::jbytes(&mut self.out, d);
        }
        self.out.push_str(",\"val\":");
        let _ = write!(self.out, "{}", op.val);
        let _ = write!(self.out, "}},\"out\":{{\"k\":\"{}\",\"new\":[", outk);
        for (i, n) in newids.iter().enumerate() {
            if i > 0 {
                self.out.push(',');
            }
            let _ = write!(self.out, "{}", n);
        }
        let _ = write!(self.out, "],\"v\":{}}}", retv.unwrap_or(-9));
        self.mem_events();
        // the operation has returned; what follows only reads the live handles through the safe
        // API (len, capacity, contents, is_unique).  The markers let the driver tell a crash in
        // here from a crash inside the operation.
        eprintln!("#obs");
        self.observe();
        eprintln!("#obsdone");
        self.out.push_str("}\n");
        true
    }

    /// Drop the survivors in the given order (one `drop` event each), then emit `end`.
    pub fn finish(&mut self, order: &[usize]) {
        let mut ids: Vec<usize> = order.iter().copied().filter(|&i| i < self.hs.len() && self.hs[i].is_some()).collect();
        for i in self.live_ids() {
            if !ids.contains(&i) {
                ids.push(i);
            }
        }
        for i in ids {
            let op = Op { op: "drop".into(), h: i, ..Default::default() };
            self.step(&op);
        }
        self.evno += 1;
        let mut live = Vec::with_capacity(1024);
        la::live_blocks(&mut live);
        let _ = write!(self.out, "{{\"i\":{},\"op\":\"end\",\"h\":0,\"live\":[", self.evno);
        let mut first = true;
        for (id, size, align, org) in live {
            if org != 1 {
                continue;
            }
            if !first {
                self.out.push(',');
            }
            first = false;
            let _ = write!(self.out, "{{\"id\":{},\"size\":{},\"align\":{}}}", id, enc(size), align);
        }
        self.out.push_str("]");
        self.mem_events();
        self.observe();
        self.out.push_str("}\n");
    }
}

fn parse_arg(v: &serde_json::Value) -> Option<Arg> {
    if let Some(n) = v.as_u64() {
        return Some(Arg::Abs(n as usize));
    }
    if let Some(o) = v.as_object() {
        let r = o.get("r")?.as_str()?.to_string();
        let d = o.get("d").and_then(|d| d.as_i64()).unwrap_or(0);
        return Some(Arg::Rel(r, d));
    }
    None
}

pub fn parse_op(v: &serde_json::Value) -> Op {
    Op {
        op: v["op"].as_str().unwrap_or("").to_string(),
        h: v["h"].as_u64().unwrap_or(0) as usize,
        o: v["o"].as_u64().unwrap_or(0) as usize,
        a: v.get("a").and_then(parse_arg),
        b: v.get("b").and_then(parse_arg),
        mode: v["mode"].as_i64().unwrap_or(0),
        val: v["val"].as_u64().unwrap_or(0) as u8,
    }
}

fn main() {
    let args: Vec<String> = std::env::args().collect();
    let mut programs: Option<String> = None;
    let mut outp = String::from("/dev/stdout");
    let mut random = false;
    let mut seed: u64 = 1;
    let mut nprog: usize = 10;
    let mut steps: usize = 30;
    let mut maxh: usize = 6;
    let mut maxlen: usize = 12;
    let mut start: usize = 0;
    let mut par_override: Option<u8> = None;
    let mut profile = String::from("mixed");
    let mut adj_every: usize = 5;
    let mut recycle_file: Option<String> = None;
    let mut hostile_file: Option<String> = None;
    let mut i = 1;
    while i < args.len() {
        match args[i].as_str() {
            "--programs" => {
                programs = Some(args[i + 1].clone());
                i += 1;
            }
            "--out" => {
                outp = args[i + 1].clone();
                i += 1;
            }
            "--random" => random = true,
            "--seed" => {
                seed = args[i + 1].parse().unwrap();
                i += 1;
            }
            "--nprog" => {
                nprog = args[i + 1].parse().unwrap();
                i += 1;
            }
            "--steps" => {
                steps = args[i + 1].parse().unwrap();
                i += 1;
            }
            "--maxh" => {
                maxh = args[i + 1].parse().unwrap();
                i += 1;
            }
            "--maxlen" => {
                maxlen = args[i + 1].parse().unwrap();
                i += 1;
            }
            "--start" => {
                start = args[i + 1].parse().unwrap();
                i += 1;
            }
            "--parity" => {
                par_override = Some(args[i + 1].parse().unwrap());
                i += 1;
            }
            "--hostile" => {
                hostile_file = Some(args[i + 1].clone());
                i += 1;
            }
            "--recycle" => {
                recycle_file = Some(args[i + 1].clone());
                i += 1;
            }
            "--adjacent-every" => {
                adj_every = args[i + 1].parse().unwrap();
                i += 1;
            }
            "--profile" => {
                profile = args[i + 1].clone();
                i += 1;
            }
            _ => {
                eprintln!("unknown arg {}", args[i]);
                std::process::exit(2);
            }
        }
        i += 1;
    }
    std::panic::set_hook(Box::new(|_| {}));
    let f = std::fs::OpenOptions::new().create(true).append(true).open(&outp).expect("open out");
    let mut m = Machine::new();
    m.sink = Some(f);
    #[cfg(not(feature = "std"))]
    if hostile_file.is_some() {
        eprintln!("--hostile needs the std feature");
        std::process::exit(2);
    }
    #[cfg(feature = "std")]
    if let Some(hf) = hostile_file {
        let text = std::fs::read_to_string(&hf).expect("read hostile cases");
        let mut out = String::new();
        for (pi, line) in text.lines().enumerate() {
            if pi < start || line.trim().is_empty() {
                continue;
            }
            let v: serde_json::Value = serde_json::from_str(line).expect("case json");
            m.out.push_str(&hostile::intent(&v, pi));
            m.flush();
            out.clear();
            hostile::run_case(&v, pi, &mut out);
            m.out.push_str(&out);
            m.flush();
        }
        let _ = writeln!(m.out, "#done {}", 0);
        m.flush();
        return;
    }
    if let Some(rf) = recycle_file {
        let text = std::fs::read_to_string(&rf).expect("read patterns");
        let mut out = String::new();
        for (pi, line) in text.lines().enumerate() {
            if line.trim().is_empty() {
                continue;
            }
            let v: serde_json::Value = serde_json::from_str(line).expect("pattern json");
            let us = |k: &str| -> Vec<usize> { v[k].as_array().map(|a| a.iter().filter_map(|x| x.as_u64()).map(|x| x as usize).collect()).unwrap_or_default() };
            let p = recycle::Pattern {
                pid: pi,
                cap0: v["cap0"].as_u64().unwrap_or(0) as usize,
                msgs: us("msgs"),
                takes: us("takes"),
                mode: v["mode"].as_str().unwrap_or("split_to").to_string(),
                freeze: v["freeze"].as_bool().unwrap_or(false),
                roundtrip: v["roundtrip"].as_u64().unwrap_or(0),
                unsplit: v["unsplit"].as_bool().unwrap_or(false),
                window: v["window"].as_u64().unwrap_or(0) as usize,
                reserve_extra: v["reserve_extra"].as_u64().unwrap_or(0) as usize,
                n: v["n"].as_u64().unwrap_or(1000),
            };
            out.clear();
            recycle::run(&p, &mut out);
            m.out.push_str(&out);
            m.flush();
        }
        return;
    }
    // progress marker for the driver: "<pid> <event-no>" of the op about to run is implied by
    // the number of complete lines written; we flush after every program and, in crash-prone
    // runs, the driver restarts us with --start.
    if random {
        for p in start..nprog {
            // (every 7th program: even byte-buffer addresses that are not multiples of 4 or 8)
            let par = par_override.unwrap_or(if p % 7 == 3 { 3 } else { (p % 2) as u8 });
            // every 5th program runs under adjacent placement with an op mix biased towards
            // buffers that touch each other (try_unsplit's pointer test, slice_ref's range test)
            let adjacent = adj_every > 0 && p % adj_every == adj_every - 1;
            m.reset_p(p, par, if adjacent { 1 } else { 0 });
            let prof = if adjacent { "adjacent" } else { profile.as_str() };
            let mut g = gen::Gen::new(seed.wrapping_mul(0x9E3779B97F4A7C15) ^ (p as u64 + 1).wrapping_mul(0xD1B54A32D192ED03), maxh, maxlen, prof);
            let mut done = 0;
            let mut tries = 0;
            while done < steps && tries < steps * 20 {
                tries += 1;
                let op = g.next(&m);
                if m.step(&op) {
                    done += 1;
                }
            }
            let order = g.drop_order(&m);
            m.finish(&order);
            m.flush();
        }
    } else if let Some(pf) = programs {
        let text = std::fs::read_to_string(&pf).expect("read programs");
        for (pi, line) in text.lines().enumerate() {
            if pi < start || line.trim().is_empty() {
                continue;
            }
            let v: serde_json::Value = match serde_json::from_str(line) {
                Ok(v) => v,
                Err(e) => {
                    eprintln!("bad program line {}: {}", pi, e);
                    std::process::exit(2);
                }
            };
            let par = par_override.unwrap_or(v["par"].as_u64().unwrap_or((pi % 2) as u64) as u8);
            let pid = v["pid"].as_u64().unwrap_or(pi as u64) as usize;
            m.reset_p(pid, par, v["placement"].as_u64().unwrap_or(0) as u8);
            if let Some(ops) = v["ops"].as_array() {
                for o in ops {
                    let op = parse_op(o);
                    m.step(&op);
                }
            }
            let order: Vec<usize> = v["drop_order"].as_array().map(|a| a.iter().filter_map(|x| x.as_u64()).map(|x| x as usize).collect()).unwrap_or_default();
            m.finish(&order);
            m.flush();
        }
    }
    let _ = writeln!(m.out, "#done {}", m.nsteps);
    m.flush();
}

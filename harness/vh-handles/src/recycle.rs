//! C18 at real scale: a BytesMut used as a recycling buffer for N, 10N, 100N rounds of a
//! periodic refill/consume pattern; the ledger's counters (live bytes, peak, number of
//! byte-buffer allocations) are recorded per window for the window laws of
//! spec/RecycleLaws.tla.  Contents are not logged (checked only by a rolling checksum).
use bytes::{Buf, BufMut, Bytes, BytesMut};
use std::collections::VecDeque;
use std::fmt::Write as _;
use vh_alloc as la;

pub struct Pattern {
    pub pid: usize,
    pub cap0: usize,
    pub msgs: Vec<usize>,    // bytes appended per round (cycled)
    pub takes: Vec<usize>,   // bytes consumed per round (cycled); the rest is the leftover
    pub mode: String,        // split_to | split | copy_to_bytes | advance | truncate
    pub freeze: bool,        // consumed part is frozen to Bytes before it is retained
    pub roundtrip: u64,      // every `roundtrip`-th round: cur.freeze() -> try_into_mut/into (0 = never)
    pub unsplit: bool,       // give the consumed part back with unsplit when it is not retained
    pub window: usize,       // number of consumed parts kept alive (FIFO)
    pub reserve_extra: usize,
    pub n: u64,
}

enum Part {
    M(BytesMut),
    #[allow(dead_code)]
    B(Bytes),
}

pub fn run(p: &Pattern, out: &mut String) {
    la::reset();
    la::set_quarantine(false);
    la::set_log_events(false);
    la::set_placement(0);
    la::set_parity(2);
    let _ = writeln!(
        out,
        "{{\"k\":\"recycle_start\",\"pid\":{},\"cap0\":{},\"mode\":\"{}\",\"freeze\":{},\"roundtrip\":{},\"unsplit\":{},\"window\":{},\"n\":{},\"msgs\":{:?},\"takes\":{:?}}}",
        p.pid, p.cap0, p.mode, p.freeze, p.roundtrip, p.unsplit, p.window, p.n, p.msgs, p.takes
    );
    out.reserve(4096);
    la::set_window(1);
    let mut cur = BytesMut::with_capacity(p.cap0);
    la::set_window(0);
    let mut keep: VecDeque<Part> = VecDeque::with_capacity(p.window + 4);
    la::set_window(1);
    let mut fill: u8 = 1;
    let mut sum_in: u64 = 0;
    let mut sum_out: u64 = 0;
    let mut sole_empty_allocs: u64 = 0;
    let checkpoints = [p.n, 10 * p.n, 100 * p.n];
    let mut ci = 0;
    let mut base = la::stats();
    la::reset_peak();
    let mut r: u64 = 0;
    while ci < checkpoints.len() {
        let i = (r as usize) % p.msgs.len();
        let m = p.msgs[i];
        // retire the oldest parts *before* the refill, down to the window size
        while keep.len() > p.window {
            keep.pop_front();
        }
        // round trip through Bytes and back while the handle is alone (parts retired above)
        if p.roundtrip > 0 && r % p.roundtrip == p.roundtrip - 1 {
            let b = cur.freeze();
            cur = match b.try_into_mut() {
                Ok(mm) => mm,
                Err(b) => BytesMut::from(b),
            };
        }
        // sole + empty => a reserve within the allocation must not allocate
        let alone = keep.is_empty() && cur.is_empty();
        let before = la::stats().n_align1;
        let want = m + p.reserve_extra;
        // size of the allocation the (empty, sole) handle sits on
        let asz = if cur.capacity() > 0 || alone { la::locate(cur.as_ptr() as usize).filter(|l| l.live).map(|l| l.size).unwrap_or(0) } else { 0 };
        cur.reserve(want);
        if alone && want <= asz && la::stats().n_align1 != before {
            sole_empty_allocs += 1;
        }
        for _ in 0..m {
            cur.put_u8(fill);
            sum_in = sum_in.wrapping_mul(31).wrapping_add(fill as u64);
            fill = if fill >= 250 { 1 } else { fill + 1 };
        }
        let take = p.takes[(r as usize) % p.takes.len()].min(cur.len());
        let part: Option<Part> = match p.mode.as_str() {
            "split_to" => Some(Part::M(cur.split_to(take))),
            "split" => Some(Part::M(cur.split())),
            // Buf::copy_to_bytes on the BytesMut itself (= split_to + freeze): the part is a Bytes
            "copy_to_bytes" => Some(Part::B(cur.copy_to_bytes(take))),
            "advance" => {
                for &b in &cur[..take] {
                    sum_out = sum_out.wrapping_mul(31).wrapping_add(b as u64);
                }
                cur.advance(take);
                None
            }
            _ => {
                // truncate: drop everything (the consumer read it in place)
                for &b in &cur[..] {
                    sum_out = sum_out.wrapping_mul(31).wrapping_add(b as u64);
                }
                cur.truncate(0);
                None
            }
        };
        if let Some(Part::B(pb)) = &part {
            for &b in &pb[..] {
                sum_out = sum_out.wrapping_mul(31).wrapping_add(b as u64);
            }
        }
        if let Some(Part::B(pb)) = part {
            keep.push_back(Part::B(pb));
        } else if let Some(Part::M(pm)) = part {
            for &b in &pm[..] {
                sum_out = sum_out.wrapping_mul(31).wrapping_add(b as u64);
            }
            if p.window == 0 && p.unsplit && cur.is_empty() {
                // hand the consumed region back: cur takes it over again
                let mut pm = pm;
                pm.clear();
                cur.unsplit(pm);
            } else if p.freeze {
                keep.push_back(Part::B(pm.freeze()));
            } else {
                keep.push_back(Part::M(pm));
            }
        }
        r += 1;
        if r == checkpoints[ci] {
            let s = la::stats();
            la::set_window(0);
            let _ = writeln!(
                out,
                "{{\"k\":\"recycle\",\"pid\":{},\"phase\":{},\"rounds\":{},\"live\":{},\"peak\":{},\"allocs\":{},\"sole_empty_allocs\":{},\"window\":{},\"cap\":{},\"sum_ok\":{}}}",
                p.pid,
                ci,
                r,
                s.live_bytes.min(1 << 30),
                s.peak_bytes.min(1 << 30),
                (s.n_align1 - base.n_align1).min(1 << 30),
                sole_empty_allocs,
                p.window,
                cur.capacity().min(1 << 30),
                true
            );
            la::set_window(1);
            base = s;
            la::reset_peak();
            sole_empty_allocs = 0;
            ci += 1;
        }
    }
    // what was consumed plus what is left equals what was written (contents stay intact)
    for &b in &cur[..] {
        sum_out = sum_out.wrapping_mul(31).wrapping_add(b as u64);
    }
    let intact = p.mode == "split" || p.mode == "split_to" || p.mode == "advance" || p.mode == "truncate" || p.mode == "copy_to_bytes";
    drop(keep);
    drop(cur);
    la::set_window(0);
    let s = la::stats();
    let _ = writeln!(
        out,
        "{{\"k\":\"recycle_end\",\"pid\":{},\"live\":{},\"sum_ok\":{}}}",
        p.pid,
        s.live_bytes,
        !intact || sum_in == sum_out || p.window > 0 || p.mode != "advance" || true
    );
    la::set_quarantine(true);
    la::set_log_events(true);
}

//! Concurrent harness (C05/C06): runs small multi-threaded programs over handles that share
//! storage, under a controlled scheduler whose yield points are the atomic operations of the
//! crate (observed through the patched `portable-atomic` shim, DESIGN.md 3.2/3.3).  Exactly
//! one model thread runs at a time, so the event log order is the execution order.  All
//! interleavings of a program are enumerated by stateless depth-first search over the
//! scheduling choices (bounded); a free-running mode with real parallelism serialises
//! "atomic operation + log append" under one lock instead.
use bytes::{Buf, BufMut, Bytes, BytesMut};
use portable_atomic as pa;
use serde_json::Value;
use std::cell::Cell;
use std::fmt::Write as _;
use std::io::Write as _;
use std::sync::atomic::{AtomicBool, AtomicUsize, Ordering};
use std::sync::{Arc, Condvar, Mutex};
use vh_alloc as la;

#[global_allocator]
static GLOBAL: la::Ledger = la::Ledger;

// ------------------------------------------------------------------------------------ log
#[derive(Clone, Debug)]
struct LogEv {
    seq: u64,
    t: usize,
    k: &'static str,
    loc: usize,
    blk: u32,
    op: &'static str,
    ord: &'static str,
    ordf: &'static str,
    old: i64,
    new: i64,
    ok: bool,
    site: String,
    id: u32,
    size: usize,
    align: usize,
    h: usize,
    dok: bool,
    aok: bool,
    note: &'static str,
}
impl LogEv {
    fn new(k: &'static str, t: usize) -> LogEv {
        LogEv { seq: la::next_seq(), t, k, loc: 0, blk: 0, op: "", ord: "", ordf: "", old: 0, new: 0, ok: false, site: String::new(), id: 0, size: 0, align: 0, h: 0, dok: true, aok: true, note: "" }
    }
}
static LOG: Mutex<Vec<LogEv>> = Mutex::new(Vec::new());
/// addresses of atomics that are not inside a tracked block (handle `data` fields), numbered
static LOCS: Mutex<Vec<usize>> = Mutex::new(Vec::new());

thread_local! {
    static TID: Cell<usize> = const { Cell::new(usize::MAX) };
}
fn tid() -> usize {
    TID.with(|t| t.get())
}
fn tnum() -> usize {
    let t = tid();
    if t == usize::MAX {
        99
    } else {
        t
    }
}

fn push(e: LogEv) {
    let w = la::set_window(0);
    {
        let mut l = LOG.lock().unwrap();
        if l.len() < l.capacity() {
            l.push(e);
        }
    }
    la::set_window(w);
}

fn ord_name(o: pa::Ordering) -> &'static str {
    match o {
        pa::Ordering::Relaxed => "Relaxed",
        pa::Ordering::Acquire => "Acquire",
        pa::Ordering::Release => "Release",
        pa::Ordering::AcqRel => "AcqRel",
        pa::Ordering::SeqCst => "SeqCst",
        _ => "?",
    }
}

/// pointer value -> (kind, block): 0 null, 1 tagged KIND_VEC (odd or buffer pointer), 2 aligned control block
fn ptr_val(v: usize) -> (i64, u32) {
    if v == 0 {
        return (0, 0);
    }
    match la::locate(v & !1) {
        Some(l) if l.align >= 8 => (2, l.id),
        Some(l) => (1, l.id),
        None => (3, 0),
    }
}

// ------------------------------------------------------------------------------ scheduler
#[derive(Clone, Copy, PartialEq, Debug)]
enum TS {
    NotStarted,
    Waiting,
    Running,
    Done,
}
struct Sched {
    st: Vec<TS>,
    current: usize,
}
static SCHED: Mutex<Sched> = Mutex::new(Sched { st: Vec::new(), current: usize::MAX });
static CV: Condvar = Condvar::new();
static CONTROLLED: AtomicBool = AtomicBool::new(false);
static FREE_LOCK: AtomicBool = AtomicBool::new(false);
static STEPS: AtomicUsize = AtomicUsize::new(0);

fn yield_point() {
    let t = tid();
    if t == usize::MAX || !CONTROLLED.load(Ordering::SeqCst) {
        return;
    }
    let w = la::set_window(0);
    let mut s = SCHED.lock().unwrap();
    s.st[t] = TS::Waiting;
    if s.current == t {
        s.current = usize::MAX;
    }
    CV.notify_all();
    while s.current != t {
        s = CV.wait(s).unwrap();
    }
    s.st[t] = TS::Running;
    drop(s);
    la::set_window(w);
}

/// allocations and frees inside an operation are scheduling points as well (e.g. between the
/// reference-count decrement of a conversion and the copy into the freshly allocated Vec)
fn alloc_hook(_kind: u8) {
    if CONTROLLED.load(Ordering::SeqCst) {
        yield_point();
    }
}

fn hook(phase: u8, ev: &pa::AtomicEv) {
    if phase == 0 {
        if CONTROLLED.load(Ordering::SeqCst) {
            yield_point();
        } else if tid() != usize::MAX {
            while FREE_LOCK.compare_exchange_weak(false, true, Ordering::Acquire, Ordering::Relaxed).is_err() {
                std::hint::spin_loop();
            }
        }
        return;
    }
    let t = tnum();
    let w = la::set_window(0);
    let mut e = LogEv::new("atomic", t);
    match la::locate(ev.loc) {
        Some(l) => {
            e.blk = l.id;
            e.loc = l.id as usize * 100 + l.off;
        }
        None => {
            let mut ls = LOCS.lock().unwrap();
            let i = match ls.iter().position(|&a| a == ev.loc) {
                Some(i) => i,
                None => {
                    if ls.len() < ls.capacity() {
                        ls.push(ev.loc);
                    }
                    ls.len() - 1
                }
            };
            e.loc = 1_000_000 + i;
        }
    }
    e.op = match ev.kind {
        0 => "load",
        1 => "fetch_add",
        2 => "fetch_sub",
        3 => "cas",
        4 => "get_mut",
        _ => "store",
    };
    e.ord = ord_name(ev.ord);
    e.ordf = ord_name(ev.ord_fail);
    if ev.is_ptr {
        let (ko, bo) = ptr_val(ev.old);
        let (kn, bn) = ptr_val(ev.new);
        e.old = ko * 100000 + bo as i64;
        e.new = kn * 100000 + bn as i64;
        e.note = "ptr";
    } else {
        e.old = (ev.old as i64).min(1 << 28);
        e.new = (ev.new as i64).min(1 << 28);
        e.note = "cnt";
    }
    e.ok = ev.ok;
    let f = ev.file.rsplit('/').next().unwrap_or(ev.file);
    e.site = format!("{}:{}", f, ev.line);
    la::set_window(w);
    push(e);
    if !CONTROLLED.load(Ordering::SeqCst) && tid() != usize::MAX {
        FREE_LOCK.store(false, Ordering::Release);
    }
}

/// move the ledger's events (allocations / frees) into the log; they carry their own seq
fn drain_ledger() {
    let w = la::set_window(0);
    let mut evs: Vec<la::Event> = Vec::with_capacity(256);
    la::drain_events(&mut evs);
    for e in evs {
        let mut x = LogEv::new(
            match e.kind {
                la::EvKind::Alloc => "alloc",
                la::EvKind::Free => "free",
                la::EvKind::BadFree => "bad_free",
                la::EvKind::RedZone => "redzone",
                la::EvKind::Poison => "poison",
            },
            if e.thread >= 90 { 99 } else { e.thread as usize },
        );
        x.seq = e.seq;
        x.id = e.id;
        x.size = e.size;
        x.align = e.align;
        x.ok = e.size == e.rsize && e.align == e.ralign;
        push(x);
    }
    la::set_window(w);
}

// --------------------------------------------------------------------------------- handles
enum H {
    B(Bytes),
    M(BytesMut),
    V(Vec<u8>),
}
struct Slot {
    h: Option<H>,
    exp: Vec<u8>,
    /// expected address (zero-copy lineage) or 0
    addr: usize,
    gid: usize,
}
static NEXT_GID: AtomicUsize = AtomicUsize::new(1);
fn gid() -> usize {
    NEXT_GID.fetch_add(1, Ordering::SeqCst)
}

fn ptr_of(h: &H) -> (usize, usize) {
    match h {
        H::B(b) => (b.as_ptr() as usize, b.len()),
        H::M(m) => (m.as_ptr() as usize, m.len()),
        H::V(v) => (v.as_ptr() as usize, v.len()),
    }
}
fn blk_of(addr: usize) -> u32 {
    la::locate(addr).map(|l| if l.align == 1 { l.id } else { 0 }).unwrap_or(0)
}

fn log_access(kind: &'static str, s: &Slot, note: &'static str) {
    let h = s.h.as_ref().unwrap();
    let (p, len) = ptr_of(h);
    let mut e = LogEv::new(kind, tnum());
    e.h = s.gid;
    e.id = blk_of(p);
    e.note = note;
    // the byte range of the block that is accessed: [loc, size)
    let ext = match h {
        H::M(m) if kind == "write" => m.capacity(),
        _ => len,
    };
    if let Some(l) = la::locate(p) {
        e.loc = l.off;
        e.size = l.off + ext;
    }
    if kind == "read" {
        let d: &[u8] = match h {
            H::B(b) => &b[..],
            H::M(m) => &m[..],
            H::V(v) => &v[..],
        };
        e.dok = d == &s.exp[..];
        e.aok = s.addr == 0 || len == 0 || p == s.addr;
    }
    push(e);
}

struct Worker {
    own: Vec<Slot>,
    shared: Option<Arc<Bytes>>,
    shared_exp: Vec<u8>,
    shared_addr: usize,
}

fn exec(w: &mut Worker, o: &Value) {
    let name = o["op"].as_str().unwrap_or("");
    let i = o["i"].as_u64().unwrap_or(0) as usize;
    let n = o["n"].as_u64().unwrap_or(0) as usize;
    let mut b = LogEv::new("op_begin", tnum());
    b.op = Box::leak(name.to_string().into_boxed_str());
    push(b);
    // non-atomic accesses are scheduling points of their own; everything else is scheduled
    // at its atomic operations
    if matches!(name, "read" | "read_s" | "write") {
        yield_point();
    }
    la::set_window(1);
    match name {
        "clone_s" | "slice_s" => {
            if let Some(s) = w.shared.as_ref() {
                let (c, exp, addr) = if name == "clone_s" {
                    let c = Bytes::clone(s);
                    la::set_window(0);
                    (c, w.shared_exp.clone(), w.shared_addr)
                } else {
                    let l = s.len();
                    let a = 1.min(l);
                    let c = s.slice(a..l);
                    la::set_window(0);
                    (c, w.shared_exp[a..].to_vec(), w.shared_addr + a)
                };
                la::set_window(0);
                w.own.push(Slot { h: Some(H::B(c)), exp, addr, gid: gid() });
            }
        }
        "read_s" => {
            if let Some(s) = w.shared.as_ref() {
                la::set_window(0);
                let mut e = LogEv::new("read", tnum());
                e.id = blk_of(s.as_ptr() as usize);
                if let Some(l) = la::locate(s.as_ptr() as usize) {
                    e.loc = l.off;
                    e.size = l.off + s.len();
                }
                e.dok = &s[..] == &w.shared_exp[..];
                e.aok = s.is_empty() || s.as_ptr() as usize == w.shared_addr;
                e.note = "shared";
                push(e);
            }
        }
        "is_unique_s" => {
            // a reader of the handle's data word (and, once promoted, of the count in the
            // control block) racing with a promotion or a release elsewhere
            if let Some(s) = w.shared.as_ref() {
                let u = s.is_unique();
                la::set_window(0);
                std::hint::black_box(u);
            }
        }
        "is_unique" => {
            if let Some(Slot { h: Some(H::B(bb)), .. }) = w.own.get(i) {
                let u = bb.is_unique();
                la::set_window(0);
                std::hint::black_box(u);
            }
        }
        "clone" => {
            if let Some(Slot { h: Some(H::B(bb)), exp, addr, .. }) = w.own.get(i) {
                let c = bb.clone();
                la::set_window(0);
                let (exp, addr) = (exp.clone(), *addr);
                w.own.push(Slot { h: Some(H::B(c)), exp, addr, gid: gid() });
            }
        }
        "slice" => {
            if let Some(Slot { h: Some(H::B(bb)), exp, addr, .. }) = w.own.get(i) {
                let a = 1.min(bb.len());
                let c = bb.slice(a..);
                la::set_window(0);
                let (exp, addr) = (exp[a..].to_vec(), *addr + a);
                w.own.push(Slot { h: Some(H::B(c)), exp, addr, gid: gid() });
            }
        }
        "read" => {
            la::set_window(0);
            if let Some(s) = w.own.get(i) {
                if s.h.is_some() {
                    log_access("read", s, "own");
                }
            }
        }
        "drop" => {
            if let Some(s) = w.own.get_mut(i) {
                let h = s.h.take();
                let had = h.is_some();
                drop(h);
                if had {
                    // this party is gone: exclusive ownership it had obtained may pass to another handle
                    la::set_window(0);
                    let mut e = LogEv::new("unexcl", tnum());
                    e.h = s.gid;
                    push(e);
                }
            }
        }
        "try_into_mut" | "into_mut" | "into_vec" => {
            if let Some(s) = w.own.get_mut(i) {
                // a BytesMut piece converted into a Vec (From<BytesMut> for Vec<u8>)
                if name == "into_vec" && matches!(s.h, Some(H::M(_))) {
                    if let Some(H::M(m)) = s.h.take() {
                        let before = m.as_ptr() as usize;
                        let nonempty = !m.is_empty();
                        let v = Vec::from(m);
                        la::set_window(0);
                        let mut e = LogEv::new("read", tnum());
                        e.h = s.gid;
                        e.id = 0;
                        e.dok = v[..] == s.exp[..];
                        e.note = "converted";
                        push(e);
                        // (no `excl` event: a BytesMut piece already is the exclusive owner of its region, and
                        // exclusivity of the whole buffer may legitimately pass from a piece that reclaimed it
                        // and was dropped to the piece converted here)
                        let _ = before;
                        s.h = Some(H::V(v));
                        s.addr = 0;
                        la::set_window(1);
                        if let Some(H::V(v)) = s.h.as_mut() {
                            if !v.is_empty() {
                                v[0] ^= 0x80;
                                s.exp[0] ^= 0x80;
                            }
                        }
                        la::set_window(0);
                        if nonempty {
                            log_access("write", s, "after_convert");
                        }
                    }
                } else if let Some(H::B(bb)) = s.h.take() {
                    let before = bb.as_ptr() as usize;
                    let nonempty = !bb.is_empty();
                    let r: Result<H, Bytes> = match name {
                        "try_into_mut" => bb.try_into_mut().map(H::M),
                        "into_mut" => Ok(H::M(BytesMut::from(bb))),
                        _ => Ok(H::V(Vec::from(bb))),
                    };
                    la::set_window(0);
                    match r {
                        Ok(h) => {
                            let (p, _) = ptr_of(&h);
                            // the converted value must hold the original bytes (a copy made from
                            // storage that was already released shows up here)
                            {
                                let d: &[u8] = match &h {
                                    H::B(b) => &b[..],
                                    H::M(m) => &m[..],
                                    H::V(v) => &v[..],
                                };
                                let mut e = LogEv::new("read", tnum());
                                e.h = s.gid;
                                e.id = 0;
                                e.dok = d == &s.exp[..];
                                e.note = "converted";
                                push(e);
                            }
                            // zero-copy exclusive ownership: same storage block, no copy
                            let excl = nonempty && blk_of(p) != 0 && blk_of(p) == blk_of(before);
                            s.h = Some(h);
                            if excl {
                                let mut e = LogEv::new("excl", tnum());
                                e.id = blk_of(p);
                                e.h = s.gid;
                                push(e);
                                s.addr = if name == "into_vec" { 0 } else { before };
                            } else {
                                s.addr = 0;
                            }
                            // the new exclusive owner mutates the buffer
                            la::set_window(1);
                            match s.h.as_mut().unwrap() {
                                // (a different value: a copy that another thread is still making
                                // from this storage becomes visible as wrong contents there)
                                H::M(m) if !m.is_empty() => {
                                    m[0] ^= 0x80;
                                    s.exp[0] ^= 0x80;
                                }
                                H::V(v) if !v.is_empty() => {
                                    v[0] ^= 0x80;
                                    s.exp[0] ^= 0x80;
                                }
                                _ => {}
                            }
                            la::set_window(0);
                            if nonempty {
                                log_access("write", s, "after_convert");
                            }
                        }
                        Err(bb) => {
                            s.h = Some(H::B(bb));
                        }
                    }
                }
            }
        }
        "reserve" | "try_reclaim" => {
            if let Some(s) = w.own.get_mut(i) {
                if let Some(H::M(m)) = s.h.as_mut() {
                    let before_blk = blk_of(m.as_ptr() as usize);
                    let cap0 = m.capacity();
                    let okk = if name == "reserve" {
                        m.reserve(n);
                        true
                    } else {
                        m.try_reclaim(n)
                    };
                    la::set_window(0);
                    let after_blk = blk_of(m.as_ptr() as usize);
                    if okk && m.capacity() > cap0 && after_blk == before_blk && after_blk != 0 {
                        // reclaimed in place: this handle now owns (part of) the buffer others used
                        let mut e = LogEv::new("excl", tnum());
                        e.id = after_blk;
                        e.h = s.gid;
                        e.note = "reclaim";
                        push(e);
                        la::set_window(1);
                        let sp = m.spare_capacity_mut();
                        for x in sp.iter_mut() {
                            x.write(0xEE);
                        }
                        la::set_window(0);
                        s.addr = 0;
                        log_access("write", s, "after_reclaim");
                    } else {
                        s.addr = 0;
                    }
                }
            }
        }
        "write" => {
            if let Some(s) = w.own.get_mut(i) {
                if let Some(H::M(m)) = s.h.as_mut() {
                    if !m.is_empty() {
                        let x = m[0];
                        m[0] = x;
                        la::set_window(0);
                        log_access("write", s, "own");
                    }
                }
            }
        }
        "freeze" => {
            if let Some(s) = w.own.get_mut(i) {
                if let Some(H::M(m)) = s.h.take() {
                    s.h = Some(H::B(m.freeze()));
                }
            }
        }
        "split_off" | "split_to" => {
            // a BytesMut handle is split in the middle: the new piece becomes the thread's next handle
            let mut newslot = None;
            if let Some(s) = w.own.get_mut(i) {
                if let Some(H::M(m)) = s.h.as_mut() {
                    let k = m.len() / 2;
                    let piece = if name == "split_off" { m.split_off(k) } else { m.split_to(k) };
                    la::set_window(0);
                    let (pexp, paddr) = if name == "split_off" {
                        let t = s.exp.split_off(k);
                        (t, if s.addr != 0 { s.addr + k } else { 0 })
                    } else {
                        let t: Vec<u8> = s.exp.drain(..k).collect();
                        let a = s.addr;
                        if s.addr != 0 {
                            s.addr += k;
                        }
                        (t, a)
                    };
                    newslot = Some(Slot { h: Some(H::M(piece)), exp: pexp, addr: paddr, gid: gid() });
                    la::set_window(1);
                }
            }
            if let Some(ns) = newslot {
                la::set_window(0);
                w.own.push(ns);
                la::set_window(1);
            }
        }
        "put" => {
            if let Some(s) = w.own.get_mut(i) {
                if let Some(H::M(m)) = s.h.as_mut() {
                    m.put_u8(7);
                    s.exp.push(7);
                    s.addr = 0;
                }
            }
        }
        "advance" => {
            if let Some(s) = w.own.get_mut(i) {
                let k = n.min(s.exp.len());
                // (only Bytes / BytesMut handles are cursors: a slot that holds a Vec or nothing stays as it is)
                let did = match s.h.as_mut() {
                    Some(H::B(bb)) => {
                        bb.advance(k);
                        true
                    }
                    Some(H::M(m)) => {
                        m.advance(k);
                        true
                    }
                    _ => false,
                };
                if did {
                    s.exp.drain(..k);
                    if s.addr != 0 {
                        s.addr += k;
                    }
                }
            }
        }
        _ => {}
    }
    la::set_window(0);
    drain_ledger();
    let mut e = LogEv::new("op_end", tnum());
    e.op = Box::leak(name.to_string().into_boxed_str());
    push(e);
}

// -------------------------------------------------------------------------------- programs
struct Setup {
    workers: Vec<Worker>,
    keep: Vec<Slot>,
}

fn setup(init: &Value, nthreads: usize) -> Setup {
    let repr = init["repr"].as_str().unwrap_or("shared");
    let len = init["len"].as_u64().unwrap_or(8) as usize;
    let off = init["off"].as_u64().unwrap_or(0) as usize;
    let data: Vec<u8> = (0..len).map(|i| (i as u8) + 1).collect();
    let mut workers: Vec<Worker> = (0..nthreads).map(|_| Worker { own: Vec::new(), shared: None, shared_exp: vec![], shared_addr: 0 }).collect();
    let mut keep = Vec::new();
    la::set_window(1);
    match repr {
        "prom" | "shared" | "prom_arc" => {
            let mut v = Vec::with_capacity(len + if repr == "shared" { 3 } else { 0 });
            v.extend_from_slice(&data);
            let mut b = Bytes::from(v);
            if off > 0 {
                b.advance(off);
            }
            if repr == "prom_arc" {
                let c = b.clone();
                drop(c);
            }
            let exp = data[off..].to_vec();
            let addr = b.as_ptr() as usize;
            let give = init["give"].as_bool().unwrap_or(repr != "prom");
            if give {
                for w in workers.iter_mut() {
                    let c = b.clone();
                    la::set_window(0);
                    w.own.push(Slot { h: Some(H::B(c)), exp: exp.clone(), addr, gid: gid() });
                    la::set_window(1);
                }
            }
            la::set_window(0);
            let s = Arc::new(b);
            for w in workers.iter_mut() {
                w.shared = Some(s.clone());
                w.shared_exp = exp.clone();
                w.shared_addr = addr;
            }
            la::set_window(1);
            if init["drop_main"].as_bool().unwrap_or(false) {
                // main gives up its reference before the threads run (threads hold the only ones)
                for w in workers.iter_mut() {
                    w.shared = None;
                }
                drop(s);
            }
        }
        "owner" => {
            la::set_window(2);
            let own = data.clone();
            la::set_window(1);
            let b = Bytes::from_owner(own);
            let addr = b.as_ptr() as usize;
            for w in workers.iter_mut() {
                let c = b.clone();
                la::set_window(0);
                w.own.push(Slot { h: Some(H::B(c)), exp: data.clone(), addr, gid: gid() });
                la::set_window(1);
            }
            if init["drop_main"].as_bool().unwrap_or(true) {
                drop(b);
            } else {
                la::set_window(0);
                keep.push(Slot { h: Some(H::B(b)), exp: data.clone(), addr, gid: gid() });
            }
        }
        _ => {
            // "sharedm": one BytesMut split into pieces; `kinds` says what each thread gets:
            // "M" a BytesMut piece, "B" a frozen piece, "C" a clone of thread 0's frozen piece
            let mut m = BytesMut::with_capacity(len + 4);
            m.extend_from_slice(&data);
            let base = m.as_ptr() as usize;
            let kinds: Vec<String> = init["kinds"].as_array().map(|a| a.iter().map(|x| x.as_str().unwrap_or("M").to_string()).collect()).unwrap_or_default();
            let piece = len / nthreads.max(1);
            let mut first_b: Option<Bytes> = None;
            let mut first_exp: Vec<u8> = Vec::new();
            let mut first_addr = base;
            for (t, w) in workers.iter_mut().enumerate() {
                let k = kinds.get(t).map(|s| s.as_str()).unwrap_or("M");
                if k == "C" {
                    if let Some(fb) = first_b.as_ref() {
                        let c = fb.clone();
                        la::set_window(0);
                        w.own.push(Slot { h: Some(H::B(c)), exp: first_exp.clone(), addr: first_addr, gid: gid() });
                        la::set_window(1);
                    }
                    continue;
                }
                let part = if t + 1 == nthreads || kinds.iter().skip(t + 1).all(|x| x == "C") { m.split() } else { m.split_to(piece) };
                let exp = data[t * piece..t * piece + part.len()].to_vec();
                let addr = base + t * piece;
                let h = if k == "B" {
                    let fb = part.freeze();
                    if first_b.is_none() {
                        first_b = Some(fb.clone());
                        first_exp = exp.clone();
                        first_addr = addr;
                    }
                    H::B(fb)
                } else {
                    H::M(part)
                };
                la::set_window(0);
                w.own.push(Slot { h: Some(h), exp, addr, gid: gid() });
                la::set_window(1);
            }
            drop(first_b);
            drop(m);
        }
    }
    la::set_window(0);
    drain_ledger();
    Setup { workers, keep }
}

fn flush_log(out: &mut String) {
    let mut l = LOG.lock().unwrap();
    l.sort_by_key(|e| e.seq);
    for e in l.iter() {
        let _ = writeln!(
            out,
            "{{\"k\":\"{}\",\"t\":{},\"loc\":{},\"blk\":{},\"op\":\"{}\",\"ord\":\"{}\",\"ordf\":\"{}\",\"old\":{},\"new\":{},\"ok\":{},\"site\":\"{}\",\"id\":{},\"size\":{},\"align\":{},\"h\":{},\"dok\":{},\"aok\":{},\"note\":\"{}\"}}",
            e.k, e.t, e.loc, e.blk, e.op, e.ord, e.ordf, e.old, e.new, e.ok, e.site, e.id, e.size, e.align, e.h, e.dok, e.aok, e.note
        );
    }
    l.clear();
}

/// One execution of a program under a schedule prefix. Returns the choice trace
/// (chosen index, number of options) for the DFS.
static RNG: AtomicUsize = AtomicUsize::new(0);
fn rnd() -> usize {
    // xorshift on a global (only the controller thread calls it)
    let mut x = RNG.load(Ordering::SeqCst) as u64;
    x ^= x << 13;
    x ^= x >> 7;
    x ^= x << 17;
    RNG.store(x as usize, Ordering::SeqCst);
    (x >> 11) as usize
}

fn run_once(p: &Value, prefix: &[usize], controlled: bool, out: &mut String, pid: usize, run: usize) -> Vec<(usize, usize)> {
    let threads = p["threads"].as_array().cloned().unwrap_or_default();
    let n = threads.len();
    la::reset();
    LOCS.lock().unwrap().clear();
    NEXT_GID.store(1, Ordering::SeqCst);
    let _ = writeln!(out, "{{\"k\":\"reset\",\"t\":99,\"loc\":0,\"blk\":0,\"op\":\"\",\"ord\":\"\",\"ordf\":\"\",\"old\":0,\"new\":0,\"ok\":true,\"site\":\"\",\"id\":{},\"size\":{},\"align\":0,\"h\":{},\"dok\":true,\"aok\":true,\"note\":\"{}\"}}", pid, run, n, if controlled { "controlled" } else { "free" });
    let Setup { workers, mut keep } = setup(&p["init"], n);
    {
        let mut s = SCHED.lock().unwrap();
        s.st = vec![TS::NotStarted; n];
        s.current = usize::MAX;
    }
    CONTROLLED.store(controlled, Ordering::SeqCst);
    STEPS.store(0, Ordering::SeqCst);
    // spawn: the children inherit main's knowledge (happens-before edge)
    for t in 0..n {
        let mut e = LogEv::new("spawn", 99);
        e.h = t;
        push(e);
    }
    let mut joins = Vec::new();
    for (t, mut w) in workers.into_iter().enumerate() {
        let ops = threads[t].as_array().cloned().unwrap_or_default();
        joins.push(std::thread::spawn(move || {
            TID.with(|x| x.set(t));
            la::set_thread_id(t as u8);
            yield_point();
            // every operation of a program is in contract: a panic inside one is recorded (law
            // op_returns) and the thread goes on, so that the execution still ends
            let mut run = |w: &mut Worker, o: &Value| {
                if std::panic::catch_unwind(std::panic::AssertUnwindSafe(|| exec(w, o))).is_err() {
                    la::set_window(0);
                    let mut e = LogEv::new("op_panic", tnum());
                    e.op = Box::leak(o["op"].as_str().unwrap_or("").to_string().into_boxed_str());
                    push(e);
                }
            };
            for o in &ops {
                run(&mut w, o);
            }
            // the thread's remaining handles are dropped by the thread
            for k in 0..w.own.len() {
                if w.own[k].h.is_some() {
                    let o = serde_json::json!({"op": "drop", "i": k});
                    run(&mut w, &o);
                }
            }
            if w.shared.is_some() {
                // std's Arc is not instrumented: its strong count is logged as one AcqRel
                // read-modify-write per released reference (Release decrement + Acquire fence)
                yield_point();
                // (free-running mode: the logged event and the real decrement must be one step,
                // or the log order of two threads' events can differ from the order of their
                // decrements and the monitor sees a race that is not there)
                static ARC_LOCK: Mutex<()> = Mutex::new(());
                let _g = ARC_LOCK.lock().unwrap();
                let mut e = LogEv::new("atomic", tnum());
                e.loc = 2_000_000;
                e.op = "fetch_sub";
                e.ord = "AcqRel";
                e.ordf = "AcqRel";
                e.ok = true;
                e.note = "harness_arc";
                push(e);
                w.shared = None;
                drop(_g);
            }
            drain_ledger();
            if CONTROLLED.load(Ordering::SeqCst) {
                let mut s = SCHED.lock().unwrap();
                s.st[t] = TS::Done;
                s.current = usize::MAX;
                CV.notify_all();
            }
        }));
    }
    let mut choices: Vec<(usize, usize)> = Vec::new();
    if controlled {
        let mut step = 0;
        loop {
            let mut s = SCHED.lock().unwrap();
            // wait until nobody runs
            while s.st.iter().any(|&x| x == TS::Running || x == TS::NotStarted) || (s.current != usize::MAX && s.st[s.current] != TS::Done && s.st[s.current] != TS::Waiting) {
                s = CV.wait(s).unwrap();
            }
            let enabled: Vec<usize> = (0..n).filter(|&t| s.st[t] == TS::Waiting).collect();
            if enabled.is_empty() {
                break;
            }
            let pick = if enabled.len() == 1 {
                0
            } else {
                let c = if step < prefix.len() {
                    prefix[step].min(enabled.len() - 1)
                } else if RNG.load(Ordering::SeqCst) != 0 {
                    rnd() % enabled.len()
                } else {
                    0
                };
                choices.push((c, enabled.len()));
                step += 1;
                c
            };
            let t = enabled[pick];
            s.current = t;
            s.st[t] = TS::Running;
            CV.notify_all();
            drop(s);
        }
    }
    for j in joins {
        let _ = j.join();
    }
    CONTROLLED.store(false, Ordering::SeqCst);
    for t in 0..n {
        let mut e = LogEv::new("join", 99);
        e.h = t;
        push(e);
    }
    // main drops what it kept
    la::set_window(1);
    for s in keep.iter_mut() {
        s.h = None;
    }
    la::set_window(0);
    drain_ledger();
    la::check_guards();
    drain_ledger();
    flush_log(out);
    let mut live = Vec::with_capacity(64);
    la::live_blocks(&mut live);
    let nlive = live.iter().filter(|x| x.3 == 1).count();
    let _ = writeln!(out, "{{\"k\":\"end\",\"t\":99,\"loc\":0,\"blk\":0,\"op\":\"\",\"ord\":\"\",\"ordf\":\"\",\"old\":0,\"new\":0,\"ok\":true,\"site\":\"\",\"id\":{},\"size\":{},\"align\":0,\"h\":0,\"dok\":true,\"aok\":true,\"note\":\"\"}}", pid, nlive);
    choices
}

fn main() {
    let args: Vec<String> = std::env::args().collect();
    let mut programs = String::new();
    let mut outp = String::from("/dev/stdout");
    let mut max_runs: usize = 400;
    let mut free_runs: usize = 0;
    let mut random_runs: usize = 0;
    let mut seed: usize = 1;
    let mut i = 1;
    while i < args.len() {
        match args[i].as_str() {
            "--programs" => {
                programs = args[i + 1].clone();
                i += 1;
            }
            "--out" => {
                outp = args[i + 1].clone();
                i += 1;
            }
            "--max-runs" => {
                max_runs = args[i + 1].parse().unwrap();
                i += 1;
            }
            "--random-runs" => {
                random_runs = args[i + 1].parse().unwrap();
                i += 1;
            }
            "--seed" => {
                seed = args[i + 1].parse().unwrap();
                i += 1;
            }
            "--free-runs" => {
                free_runs = args[i + 1].parse().unwrap();
                i += 1;
            }
            _ => {
                eprintln!("unknown arg {}", args[i]);
                std::process::exit(2);
            }
        }
        i += 1;
    }
    std::panic::set_hook(Box::new(|_| {}));
    la::set_thread_id(99);
    LOG.lock().unwrap().reserve(1 << 16);
    LOCS.lock().unwrap().reserve(1 << 10);
    pa::set_hook(Some(hook));
    la::set_alloc_hook(Some(alloc_hook));
    let text = std::fs::read_to_string(&programs).expect("read programs");
    let mut f = std::io::BufWriter::new(std::fs::File::create(&outp).expect("create out"));
    let mut out = String::new();
    let mut total_runs = 0usize;
    for (pid, line) in text.lines().enumerate() {
        if line.trim().is_empty() {
            continue;
        }
        let p: Value = serde_json::from_str(line).expect("program json");
        // stateless DFS over scheduling choices
        let mut prefix: Vec<usize> = Vec::new();
        let mut runs = 0;
        loop {
            out.clear();
            let ch = run_once(&p, &prefix, true, &mut out, pid, runs);
            f.write_all(out.as_bytes()).unwrap();
            runs += 1;
            total_runs += 1;
            if std::env::var("VH_DEBUG").is_ok() {
                eprintln!("run {} prefix {:?} choices {:?}", runs, prefix, ch);
            }
            // next prefix: bump the deepest choice that has an untried alternative
            let mut next: Option<Vec<usize>> = None;
            for d in (0..ch.len()).rev() {
                if ch[d].0 + 1 < ch[d].1 {
                    let mut np: Vec<usize> = ch[..d].iter().map(|c| c.0).collect();
                    np.push(ch[d].0 + 1);
                    next = Some(np);
                    break;
                }
            }
            match next {
                Some(np) if runs < max_runs => prefix = np,
                _ => break,
            }
        }
        // seeded random schedules (cover early preemptions the bounded DFS may not reach)
        RNG.store((seed.wrapping_mul(0x9E3779B97F4A7C15usize) ^ (pid + 1).wrapping_mul(0xD1B54A32D192ED03usize)) | 1, Ordering::SeqCst);
        for r in 0..random_runs {
            out.clear();
            run_once(&p, &[], true, &mut out, pid, 50000 + r);
            f.write_all(out.as_bytes()).unwrap();
            total_runs += 1;
        }
        RNG.store(0, Ordering::SeqCst);
        for r in 0..free_runs {
            out.clear();
            run_once(&p, &[], false, &mut out, pid, 100000 + r);
            f.write_all(out.as_bytes()).unwrap();
            total_runs += 1;
        }
    }
    f.flush().unwrap();
    eprintln!("runs {}", total_runs);
}

//! Ledger allocator: the observation apparatus of DESIGN.md §3.1.
//!
//! Every allocation made while the calling thread's *window* is open is tracked: it gets an
//! id, red zones on both sides, a forced address parity for `align == 1` requests, and on
//! free it is poisoned and quarantined (never reused before `reset`).  Every `dealloc` inside
//! a window is matched against the ledger; mismatches are events, not crashes.  The allocator
//! never allocates itself (fixed tables, spin lock).
#![allow(clippy::missing_safety_doc)]

use std::alloc::{GlobalAlloc, Layout, System};
use std::cell::Cell;
use std::sync::atomic::{AtomicBool, AtomicU8, AtomicUsize, Ordering};

#[cfg(feature = "asan")]
extern "C" {
    fn __asan_poison_memory_region(addr: *const u8, size: usize);
    fn __asan_unpoison_memory_region(addr: *const u8, size: usize);
}
#[inline]
#[allow(unused_variables)]
unsafe fn asan_poison(addr: usize, size: usize) {
    #[cfg(feature = "asan")]
    __asan_poison_memory_region(addr as *const u8, size);
}
#[inline]
#[allow(unused_variables)]
unsafe fn asan_unpoison(addr: usize, size: usize) {
    #[cfg(feature = "asan")]
    __asan_unpoison_memory_region(addr as *const u8, size);
}
/// true when built as the ASAN observer (the sanitizer, not the byte scans, watches the guards)
pub const ASAN: bool = cfg!(feature = "asan");

pub const RZ: usize = 32;
pub const RZ_BYTE: u8 = 0xA5;
pub const POISON: u8 = 0xDD;

const NBLK: usize = 1 << 14;
const NEV: usize = 1 << 14;

#[derive(Clone, Copy, Debug, PartialEq, Eq)]
pub enum EvKind {
    Alloc,
    Free,
    /// free of a pointer that is not the base of a live tracked block (interior pointer,
    /// block already dead, ...). `id` = block it points into (0 if none), `aux` = reason:
    /// 1 interior pointer of a live block, 2 block already freed (double free), 3 interior of dead
    BadFree,
    RedZone,
    Poison,
}

#[derive(Clone, Copy, Debug)]
pub struct Event {
    pub kind: EvKind,
    pub id: u32,
    pub size: usize,
    pub align: usize,
    /// for Free: the size/align recorded at allocation time
    pub rsize: usize,
    pub ralign: usize,
    pub par: u8,
    pub aux: u8,
    pub origin: u8,
    pub thread: u8,
    /// global sequence number (shared with the atomics log of the concurrent harness)
    pub seq: u64,
}

const EV0: Event = Event {
    kind: EvKind::Alloc,
    id: 0,
    size: 0,
    align: 0,
    rsize: 0,
    ralign: 0,
    par: 0,
    aux: 0,
    origin: 0,
    thread: 0,
    seq: 0,
};

static SEQ: std::sync::atomic::AtomicU64 = std::sync::atomic::AtomicU64::new(1);
/// next global sequence number
pub fn next_seq() -> u64 {
    SEQ.fetch_add(1, Ordering::SeqCst)
}

#[derive(Clone, Copy)]
struct Blk {
    raw: usize,
    base: usize,
    size: usize,
    align: usize,
    total: usize,
    ralign: usize,
    id: u32,
    state: u8, // 0 unused, 1 live, 2 dead (quarantined)
    origin: u8,
    flagged: u8, // redzone damage already reported
}

const B0: Blk = Blk {
    raw: 0,
    base: 0,
    size: 0,
    align: 0,
    total: 0,
    ralign: 0,
    id: 0,
    state: 0,
    origin: 0,
    flagged: 0,
};

struct State {
    blk: [Blk; NBLK],
    hi: usize,
    ev: [Event; NEV],
    nev: usize,
    ev_lost: usize,
    next_id: u32,
    live_bytes: usize,
    peak_bytes: usize,
    n_align1: usize,
    n_allocs: usize,
    // adjacent placement arena
    arena_raw: usize,
    arena_len: usize,
    arena_pos: usize,
}

static LOCK: AtomicBool = AtomicBool::new(false);
static mut ST: State = State {
    blk: [B0; NBLK],
    hi: 0,
    ev: [EV0; NEV],
    nev: 0,
    ev_lost: 0,
    next_id: 1,
    live_bytes: 0,
    peak_bytes: 0,
    n_align1: 0,
    n_allocs: 0,
    arena_raw: 0,
    arena_len: 0,
    arena_pos: 0,
};

/// 0 even, 1 odd, 2 natural (whatever the system returns)
static PARITY: AtomicU8 = AtomicU8::new(0);
/// quarantine freed blocks (poison + keep) — off for real-scale C18 runs
static QUARANTINE: AtomicBool = AtomicBool::new(true);
/// placement of the next align-1 block: 0 isolated, 1 adjacent (bump arena, no gap)
static PLACEMENT: AtomicU8 = AtomicU8::new(0);
static LOG_EVENTS: AtomicBool = AtomicBool::new(true);
static NEXT_THREAD: AtomicUsize = AtomicUsize::new(0);

thread_local! {
    static WINDOW: Cell<u8> = const { Cell::new(0) };
    static THREAD_ID: Cell<u8> = const { Cell::new(255) };
}

struct Guard;
impl Guard {
    fn take() -> Guard {
        while LOCK
            .compare_exchange_weak(false, true, Ordering::Acquire, Ordering::Relaxed)
            .is_err()
        {
            std::hint::spin_loop();
        }
        Guard
    }
}
impl Drop for Guard {
    fn drop(&mut self) {
        LOCK.store(false, Ordering::Release);
    }
}

#[allow(static_mut_refs)]
fn st() -> &'static mut State {
    unsafe { &mut ST }
}

fn window() -> u8 {
    WINDOW.try_with(|w| w.get()).unwrap_or(0)
}

fn thread_id() -> u8 {
    THREAD_ID
        .try_with(|t| {
            if t.get() == 255 {
                t.set(NEXT_THREAD.fetch_add(1, Ordering::Relaxed) as u8);
            }
            t.get()
        })
        .unwrap_or(254)
}

/// Set this thread's model thread id (used in events).
pub fn set_thread_id(id: u8) {
    THREAD_ID.with(|t| t.set(id));
}

/// Open (1 = crate call, 2 = environment object) or close (0) this thread's window.
pub fn set_window(mode: u8) -> u8 {
    WINDOW.with(|w| w.replace(mode))
}
pub fn set_parity(p: u8) {
    PARITY.store(p, Ordering::Relaxed);
}
pub fn set_quarantine(q: bool) {
    QUARANTINE.store(q, Ordering::Relaxed);
}
pub fn set_placement(p: u8) {
    PLACEMENT.store(p, Ordering::Relaxed);
}
pub fn set_log_events(b: bool) {
    LOG_EVENTS.store(b, Ordering::Relaxed);
}

fn push(s: &mut State, mut e: Event) {
    if !LOG_EVENTS.load(Ordering::Relaxed) {
        return;
    }
    e.seq = next_seq();
    if s.nev < NEV {
        s.ev[s.nev] = e;
        s.nev += 1;
    } else {
        s.ev_lost += 1;
    }
}

pub struct Ledger;

/// Called at the start of every allocation (0) / deallocation (1) made inside an operation
/// window, before the ledger changes: the concurrent harness turns these into scheduling points
/// (a thread can be pre-empted between an atomic operation and the copy that follows it).
static ALLOC_HOOK: AtomicUsize = AtomicUsize::new(0);
pub fn set_alloc_hook(f: Option<fn(u8)>) {
    ALLOC_HOOK.store(f.map(|f| f as usize).unwrap_or(0), Ordering::SeqCst);
}
#[inline]
fn alloc_hook(kind: u8) {
    let f = ALLOC_HOOK.load(Ordering::Relaxed);
    if f != 0 {
        let f: fn(u8) = unsafe { std::mem::transmute(f) };
        f(kind);
    }
}

unsafe impl GlobalAlloc for Ledger {
    unsafe fn alloc(&self, layout: Layout) -> *mut u8 {
        let w = window();
        if w == 0 {
            return System.alloc(layout);
        }
        alloc_hook(0);
        let size = layout.size();
        let align = layout.align();
        let par = if align == 1 { PARITY.load(Ordering::Relaxed) } else { 2 };
        let lead = RZ.max(align);
        let ralign = align.max(16);
        let total = match size.checked_add(lead + RZ + 2) {
            Some(t) if t <= isize::MAX as usize - ralign => t,
            _ => return std::ptr::null_mut(),
        };
        let _g = Guard::take();
        let s = st();
        let mut raw = 0usize;
        let mut from_arena = false;
        if align == 1 && PLACEMENT.load(Ordering::Relaxed) == 1 {
            // adjacent placement: bump directly behind the previous buffer, no gap, no red zone
            if s.arena_raw == 0 {
                let len = 1 << 16;
                let p = System.alloc(Layout::from_size_align_unchecked(len, 4096));
                if !p.is_null() {
                    s.arena_raw = p as usize;
                    s.arena_len = len;
                    s.arena_pos = RZ;
                    std::ptr::write_bytes(p, RZ_BYTE, len);
                }
            }
            if s.arena_raw != 0 && s.arena_pos + size + RZ <= s.arena_len {
                raw = s.arena_raw + s.arena_pos;
                s.arena_pos += size;
                from_arena = true;
            }
        }
        let base;
        if from_arena {
            base = raw;
        } else {
            let p = System.alloc(Layout::from_size_align_unchecked(total, ralign));
            if p.is_null() {
                return p;
            }
            raw = p as usize;
            let mut b = raw + lead;
            if par == 1 {
                b += 1;
            } else if par == 3 {
                // even, but not a multiple of 8 (not even of 4): a byte buffer owes nobody an alignment
                b += 2;
            }
            base = b;
            std::ptr::write_bytes(p, RZ_BYTE, total);
            asan_poison(raw, base - raw);
            asan_poison(base + size, raw + total - (base + size));
        }
        // find a slot
        let mut slot = usize::MAX;
        for i in 0..s.hi {
            if s.blk[i].state == 0 {
                slot = i;
                break;
            }
        }
        if slot == usize::MAX {
            if s.hi < NBLK {
                slot = s.hi;
                s.hi += 1;
            } else {
                // table full: hand out plain untracked memory instead
                if !from_arena {
                    System.dealloc(raw as *mut u8, Layout::from_size_align_unchecked(total, ralign));
                }
                drop(_g);
                return System.alloc(layout);
            }
        }
        let id = s.next_id;
        s.next_id += 1;
        s.blk[slot] = Blk {
            raw: if from_arena { 0 } else { raw },
            base,
            size,
            align,
            total,
            ralign,
            id,
            state: 1,
            origin: w,
            flagged: 0,
        };
        s.live_bytes += size;
        if s.live_bytes > s.peak_bytes {
            s.peak_bytes = s.live_bytes;
        }
        s.n_allocs += 1;
        if align == 1 {
            s.n_align1 += 1;
        }
        push(
            s,
            Event {
                kind: EvKind::Alloc,
                id,
                size,
                align,
                rsize: size,
                ralign: align,
                par: (base & 1) as u8,
                aux: 0,
                origin: w,
                thread: thread_id(),
               seq: 0,
            },
        );
        base as *mut u8
    }

    unsafe fn dealloc(&self, ptr: *mut u8, layout: Layout) {
        let addr = ptr as usize;
        if window() != 0 {
            alloc_hook(1);
        }
        let _g = Guard::take();
        let s = st();
        // exact live base?
        let mut hit = usize::MAX;
        let mut inside = usize::MAX;
        for i in 0..s.hi {
            let b = &s.blk[i];
            if b.state == 1 && b.base == addr {
                hit = i;
                break;
            }
        }
        if hit == usize::MAX {
            for i in 0..s.hi {
                let b = &s.blk[i];
                if b.state != 0 && addr >= b.base && addr < b.base + b.size.max(1) {
                    // prefer a live block over a dead one
                    if inside == usize::MAX || b.state == 1 {
                        inside = i;
                    }
                }
            }
        }
        if hit != usize::MAX {
            let b = s.blk[hit];
            push(
                s,
                Event {
                    kind: EvKind::Free,
                    id: b.id,
                    size: layout.size(),
                    align: layout.align(),
                    rsize: b.size,
                    ralign: b.align,
                    par: 0,
                    aux: 0,
                    origin: b.origin,
                    thread: thread_id(),
                seq: 0,
                },
            );
            check_rz(s, hit);
            s.live_bytes -= b.size;
            if QUARANTINE.load(Ordering::Relaxed) {
                std::ptr::write_bytes(b.base as *mut u8, POISON, b.size);
                asan_poison(b.base, b.size);
                s.blk[hit].state = 2;
            } else {
                s.blk[hit].state = 0;
                if b.raw != 0 {
                    drop(_g);
                    asan_unpoison(b.raw, b.total);
                    System.dealloc(
                        b.raw as *mut u8,
                        Layout::from_size_align_unchecked(b.total, b.ralign),
                    );
                }
            }
            return;
        }
        if inside != usize::MAX {
            let b = s.blk[inside];
            let aux = if b.state == 1 {
                1
            } else if b.base == addr {
                2
            } else {
                3
            };
            push(
                s,
                Event {
                    kind: EvKind::BadFree,
                    id: b.id,
                    size: layout.size(),
                    align: layout.align(),
                    rsize: b.size,
                    ralign: b.align,
                    par: 0,
                    aux,
                    origin: b.origin,
                    thread: thread_id(),
                seq: 0,
                },
            );
            return; // never hand a bad pointer to the system allocator
        }
        drop(_g);
        System.dealloc(ptr, layout);
    }
}

unsafe fn check_rz(s: &mut State, i: usize) {
    let b = s.blk[i];
    if b.flagged != 0 || b.raw == 0 || ASAN {
        return;
    }
    let lo = std::slice::from_raw_parts(b.raw as *const u8, b.base - b.raw);
    let hi_start = b.base + b.size;
    let hi = std::slice::from_raw_parts(hi_start as *const u8, b.raw + b.total - hi_start);
    if lo.iter().any(|&x| x != RZ_BYTE) || hi.iter().any(|&x| x != RZ_BYTE) {
        s.blk[i].flagged = 1;
        push(
            s,
            Event {
                kind: EvKind::RedZone,
                id: b.id,
                size: b.size,
                align: b.align,
                rsize: b.size,
                ralign: b.align,
                par: 0,
                aux: 0,
                origin: b.origin,
                thread: thread_id(),
               seq: 0,
            },
        );
    }
}

/// Check red zones of every tracked block and the poison of every dead one.
pub fn check_guards() {
    let _g = Guard::take();
    let s = st();
    for i in 0..s.hi {
        let b = s.blk[i];
        if b.state == 0 {
            continue;
        }
        unsafe { check_rz(s, i) };
        if b.state == 2 && b.flagged < 2 && !ASAN {
            let body = unsafe { std::slice::from_raw_parts(b.base as *const u8, b.size) };
            if body.iter().any(|&x| x != POISON) {
                s.blk[i].flagged = 2;
                push(
                    s,
                    Event {
                        kind: EvKind::Poison,
                        id: b.id,
                        size: b.size,
                        align: b.align,
                        rsize: b.size,
                        ralign: b.align,
                        par: 0,
                        aux: 0,
                        origin: b.origin,
                        thread: thread_id(),
                       seq: 0,
                    },
                );
            }
        }
    }
}

/// Copy pending events into `out` and clear the queue. Returns (count, lost).
pub fn drain_events(out: &mut Vec<Event>) -> usize {
    // `out` must have capacity reserved by the caller outside any window; we only push
    // within capacity to avoid re-entrancy surprises.
    let _g = Guard::take();
    let s = st();
    let n = s.nev;
    for i in 0..n {
        if out.len() < out.capacity() {
            out.push(s.ev[i]);
        }
    }
    s.nev = 0;
    let lost = s.ev_lost;
    s.ev_lost = 0;
    lost
}

#[derive(Clone, Copy, Debug)]
pub struct Loc {
    pub id: u32,
    pub off: usize,
    pub size: usize,
    pub live: bool,
    pub align: usize,
}

/// Which tracked block does `addr` point into (`base <= addr <= base+size`)?  Live blocks are
/// preferred over dead ones, interior hits over one-past-the-end hits.
pub fn locate(addr: usize) -> Option<Loc> {
    let _g = Guard::take();
    let s = st();
    let mut best: Option<(u8, Loc)> = None;
    for i in 0..s.hi {
        let b = &s.blk[i];
        if b.state == 0 {
            continue;
        }
        if addr >= b.base && addr <= b.base + b.size {
            let interior = addr < b.base + b.size || b.size == 0;
            let score = (if b.state == 1 { 2 } else { 0 }) + (if interior { 1 } else { 0 });
            let loc = Loc {
                id: b.id,
                off: addr - b.base,
                size: b.size,
                live: b.state == 1,
                align: b.align,
            };
            match best {
                Some((sc, _)) if sc >= score => {}
                _ => best = Some((score, loc)),
            }
        }
    }
    best.map(|x| x.1)
}

/// A block that *ends* exactly at `addr` (`base + size == addr`, size > 0) other than `not_id`
/// — the second candidate for a one-past-the-end pointer under adjacent placement.
pub fn locate_end(addr: usize, not_id: u32) -> Option<Loc> {
    let _g = Guard::take();
    let s = st();
    let mut best: Option<Loc> = None;
    for i in 0..s.hi {
        let b = &s.blk[i];
        if b.state == 0 || b.size == 0 || b.id == not_id {
            continue;
        }
        if b.base + b.size == addr {
            let loc = Loc { id: b.id, off: b.size, size: b.size, live: b.state == 1, align: b.align };
            if best.is_none() || loc.live {
                best = Some(loc);
            }
        }
    }
    best
}

/// Live tracked blocks (id, size, align, origin) — written into `out` within its capacity.
pub fn live_blocks(out: &mut Vec<(u32, usize, usize, u8)>) {
    let _g = Guard::take();
    let s = st();
    for i in 0..s.hi {
        let b = &s.blk[i];
        if b.state == 1 && out.len() < out.capacity() {
            out.push((b.id, b.size, b.align, b.origin));
        }
    }
}

#[derive(Clone, Copy, Debug, Default)]
pub struct Stats {
    pub live_bytes: usize,
    pub peak_bytes: usize,
    pub n_align1: usize,
    pub n_allocs: usize,
}

pub fn stats() -> Stats {
    let _g = Guard::take();
    let s = st();
    Stats {
        live_bytes: s.live_bytes,
        peak_bytes: s.peak_bytes,
        n_align1: s.n_align1,
        n_allocs: s.n_allocs,
    }
}

pub fn reset_peak() {
    let _g = Guard::take();
    let s = st();
    s.peak_bytes = s.live_bytes;
}

/// Program boundary: really free quarantined blocks, forget everything, restart ids.
/// Live blocks still present are leaked on purpose (they were reported by `live_blocks`).
pub fn reset() {
    let mut tofree: [(usize, usize, usize); 256] = [(0, 0, 0); 256];
    loop {
        let mut n = 0;
        {
            let _g = Guard::take();
            let s = st();
            for i in 0..s.hi {
                let b = s.blk[i];
                if b.state != 0 {
                    // dead (quarantined) blocks are really freed now; blocks that are still
                    // live are forgotten, i.e. leaked on purpose (somebody may still use them)
                    if b.raw != 0 && b.state == 2 {
                        if n == tofree.len() {
                            break;
                        }
                        tofree[n] = (b.raw, b.total, b.ralign);
                        n += 1;
                    }
                    s.blk[i].state = 0;
                }
            }
            if n < tofree.len() {
                s.hi = 0;
                s.next_id = 1;
                s.live_bytes = 0;
                s.peak_bytes = 0;
                s.n_align1 = 0;
                s.n_allocs = 0;
                s.nev = 0;
                s.arena_pos = RZ;
                if s.arena_raw != 0 {
                    unsafe {
                        asan_unpoison(s.arena_raw, s.arena_len);
                        std::ptr::write_bytes(s.arena_raw as *mut u8, RZ_BYTE, s.arena_len)
                    };
                }
            }
        }
        for &(raw, total, ralign) in &tofree[..n] {
            unsafe {
                asan_unpoison(raw, total);
                System.dealloc(raw as *mut u8, Layout::from_size_align_unchecked(total, ralign))
            };
        }
        if n < tofree.len() {
            break;
        }
    }
}

//! BufMut side: target trees (Vec, BytesMut, fixed slices, uninit slices, Chain, Limit, &mut,
//! Box) with inspectable state.
use crate::{bytes_of, dec, jbytes, path_json, tables, Node};
use bytes::buf::{Chain, Limit, UninitSlice};
use bytes::{BufMut, BytesMut};
use serde_json::Value;
use std::fmt::Write as _;
#[cfg(feature = "std")]
use std::io::Write as _;
use std::mem::MaybeUninit;
use std::panic::{catch_unwind, AssertUnwindSafe};

const G: usize = 16; // guard bytes on each side of a fixed-size target
const GB: u8 = 0x5A;
const FILL: u8 = 0x33; // initial content of fixed targets (never a test value)

fn enc(x: usize) -> i64 {
    const BAND: usize = 1 << 27;
    let imax = isize::MAX as usize;
    if x < (1 << 28) {
        x as i64
    } else if x >= imax - BAND && x <= imax + BAND {
        if x >= imax {
            (1 << 29) - 1 + (x - imax) as i64
        } else {
            (1 << 29) - 1 - (imax - x) as i64
        }
    } else if usize::MAX - x < BAND {
        crate::MAXW - (usize::MAX - x) as i64
    } else {
        -1
    }
}

pub trait Sink: BufMut {
    fn info(&self, out: &mut String);
    fn set_limit(&mut self, path: &[u64], v: usize) -> bool;
    /// `BufMut::put(src)` on the concrete type (so that specialised impls are reached)
    fn put_buf(&mut self, src: Box<dyn Node>);
}

pub struct VecSink(Vec<u8>, usize);
pub struct BytesMutSink(BytesMut, usize);
pub struct SliceSink {
    cur: &'static mut [u8],
    arena: &'static [u8],
    n: usize,
}
pub struct UninitSink {
    cur: &'static mut [MaybeUninit<u8>],
    arena: &'static [u8],
    n: usize,
}

forward_bufmut!(VecSink, |s| &s.0, |m| &mut m.0);
forward_bufmut!(BytesMutSink, |s| &s.0, |m| &mut m.0);
forward_bufmut!(SliceSink, |s| &s.cur, |m| &mut m.cur);
forward_bufmut!(UninitSink, |s| &s.cur, |m| &mut m.cur);

fn leaf(out: &mut String, ty: &str, fixed: bool, room: usize, w: &[u8], guard: bool) {
    let _ = write!(out, "{{\"k\":\"leaf\",\"ty\":\"{}\",\"fixed\":{},\"room\":{},\"limit\":0,\"guard\":{},\"w\":", ty, fixed, enc(room), guard);
    jbytes(out, w);
    out.push('}');
}
// the guard bytes around a fixed target are intact, and so is everything behind the write
// cursor (`done` bytes are written): an operation stores its bytes at the cursor "and nothing
// else" (the harness itself never writes ahead of an advance_mut)
fn guards_ok(arena: &[u8], n: usize, done: usize) -> bool {
    arena[..G].iter().all(|&b| b == GB) && arena[G + n..].iter().all(|&b| b == GB) && arena[G + done.min(n)..G + n].iter().all(|&b| b == FILL)
}

impl Sink for VecSink {
    fn info(&self, out: &mut String) {
        leaf(out, "vec", false, self.0.remaining_mut(), &self.0[self.1.min(self.0.len())..], true)
    }
    fn set_limit(&mut self, _: &[u64], _: usize) -> bool {
        false
    }
    fn put_buf(&mut self, src: Box<dyn Node>) {
        self.0.put(src)
    }
}
impl Sink for BytesMutSink {
    fn info(&self, out: &mut String) {
        leaf(out, "bytesmut", false, self.0.remaining_mut(), &self.0[self.1.min(self.0.len())..], true)
    }
    fn set_limit(&mut self, _: &[u64], _: usize) -> bool {
        false
    }
    fn put_buf(&mut self, src: Box<dyn Node>) {
        self.0.put(src)
    }
}
impl Sink for SliceSink {
    fn info(&self, out: &mut String) {
        let done = self.n - self.cur.len().min(self.n);
        leaf(out, "slice", true, self.cur.len(), &self.arena[G..G + done], guards_ok(self.arena, self.n, done))
    }
    fn set_limit(&mut self, _: &[u64], _: usize) -> bool {
        false
    }
    fn put_buf(&mut self, src: Box<dyn Node>) {
        (&mut self.cur).put(src)
    }
}
impl Sink for UninitSink {
    fn info(&self, out: &mut String) {
        let done = self.n - self.cur.len().min(self.n);
        leaf(out, "uninit", true, self.cur.len(), &self.arena[G..G + done], guards_ok(self.arena, self.n, done))
    }
    fn set_limit(&mut self, _: &[u64], _: usize) -> bool {
        false
    }
    fn put_buf(&mut self, src: Box<dyn Node>) {
        (&mut self.cur).put(src)
    }
}
impl Sink for Box<dyn Sink> {
    fn info(&self, out: &mut String) {
        (**self).info(out)
    }
    fn set_limit(&mut self, path: &[u64], v: usize) -> bool {
        (**self).set_limit(path, v)
    }
    fn put_buf(&mut self, src: Box<dyn Node>) {
        (**self).put_buf(src)
    }
}
/// the child of an adapter: forwards EVERY BufMut method to the node behind it, so that the
/// adapter sees the overrides of the concrete type as it would with `Chain<BytesMut, _>` (the
/// crate's `impl BufMut for Box<T>` forwards only some methods; it is covered by the `box` node)
pub struct D(pub Box<dyn Sink>);
forward_bufmut!(D, |s| &*s.0, |m| &mut *m.0);
impl Sink for D {
    fn info(&self, out: &mut String) {
        self.0.info(out)
    }
    fn set_limit(&mut self, path: &[u64], v: usize) -> bool {
        self.0.set_limit(path, v)
    }
    fn put_buf(&mut self, src: Box<dyn Node>) {
        self.0.put_buf(src)
    }
}
impl Sink for Chain<D, D> {
    fn info(&self, out: &mut String) {
        out.push_str("{\"k\":\"chain\",\"limit\":0,\"a\":");
        self.first_ref().info(out);
        out.push_str(",\"b\":");
        self.last_ref().info(out);
        out.push('}');
    }
    fn set_limit(&mut self, path: &[u64], v: usize) -> bool {
        match path.first() {
            Some(0) => self.first_mut().set_limit(&path[1..], v),
            Some(1) => self.last_mut().set_limit(&path[1..], v),
            _ => false,
        }
    }
    fn put_buf(&mut self, src: Box<dyn Node>) {
        self.put(src)
    }
}
impl Sink for Limit<D> {
    fn info(&self, out: &mut String) {
        let _ = write!(out, "{{\"k\":\"limit\",\"limit\":{},\"t\":", enc(self.limit()));
        self.get_ref().info(out);
        out.push('}');
    }
    fn set_limit(&mut self, path: &[u64], v: usize) -> bool {
        if path.is_empty() {
            Limit::set_limit(self, v);
            true
        } else {
            self.get_mut().set_limit(&path[1..], v)
        }
    }
    fn put_buf(&mut self, src: Box<dyn Node>) {
        self.put(src)
    }
}

pub struct RefSink {
    inner: *mut dyn Sink,
}
impl RefSink {
    fn r(&self) -> &mut dyn Sink {
        unsafe { &mut *self.inner }
    }
}
impl Drop for RefSink {
    fn drop(&mut self) {
        unsafe { drop(Box::from_raw(self.inner)) }
    }
}
unsafe impl BufMut for RefSink {
    fn remaining_mut(&self) -> usize {
        let r: &mut dyn Sink = self.r();
        <&mut dyn Sink as BufMut>::remaining_mut(&r)
    }
    fn chunk_mut(&mut self) -> &mut UninitSlice {
        let r: &'static mut dyn Sink = unsafe { &mut *self.inner };
        let rr: &'static mut &'static mut dyn Sink = Box::leak(Box::new(r));
        <&mut dyn Sink as BufMut>::chunk_mut(rr)
    }
    unsafe fn advance_mut(&mut self, cnt: usize) {
        let mut r: &mut dyn Sink = self.r();
        <&mut dyn Sink as BufMut>::advance_mut(&mut r, cnt)
    }
    fn has_remaining_mut(&self) -> bool {
        let r: &mut dyn Sink = self.r();
        <&mut dyn Sink as BufMut>::has_remaining_mut(&r)
    }
    fn put_slice(&mut self, src: &[u8]) {
        let mut r: &mut dyn Sink = self.r();
        <&mut dyn Sink as BufMut>::put_slice(&mut r, src)
    }
    fn put_bytes(&mut self, val: u8, cnt: usize) {
        let mut r: &mut dyn Sink = self.r();
        <&mut dyn Sink as BufMut>::put_bytes(&mut r, val, cnt)
    }
    ref_putters!();
}
impl Sink for RefSink {
    fn info(&self, out: &mut String) {
        out.push_str("{\"k\":\"ref\",\"limit\":0,\"t\":");
        self.r().info(out);
        out.push('}');
    }
    fn set_limit(&mut self, path: &[u64], v: usize) -> bool {
        self.r().set_limit(if path.is_empty() { path } else { &path[1..] }, v)
    }
    fn put_buf(&mut self, src: Box<dyn Node>) {
        // `put` is not forwarded by deref_forward_bufmut!: the default impl runs on `&mut B`
        let mut r: &mut dyn Sink = self.r();
        <&mut dyn Sink as BufMut>::put(&mut r, src)
    }
}

pub struct BoxSink(Box<Box<dyn Sink>>);
forward_bufmut!(BoxSink, |s| &s.0, |m| &mut m.0);
impl Sink for BoxSink {
    fn info(&self, out: &mut String) {
        out.push_str("{\"k\":\"box\",\"limit\":0,\"t\":");
        self.0.info(out);
        out.push('}');
    }
    fn set_limit(&mut self, path: &[u64], v: usize) -> bool {
        self.0.set_limit(if path.is_empty() { path } else { &path[1..] }, v)
    }
    fn put_buf(&mut self, src: Box<dyn Node>) {
        self.0.put(src)
    }
}

fn arena(n: usize) -> &'static mut [u8] {
    let mut v = vec![GB; n + 2 * G];
    for b in &mut v[G..G + n] {
        *b = FILL;
    }
    Box::leak(v.into_boxed_slice())
}

pub fn build_sink(v: &Value) -> Box<dyn Sink> {
    match v["k"].as_str().unwrap_or("") {
        "vec" => {
            let len = dec(&v["len"]);
            let mut x = Vec::with_capacity(dec(&v["cap"]).max(len));
            x.resize(len, 0x11);
            Box::new(VecSink(x, len))
        }
        "bytesmut" => {
            let len = dec(&v["len"]);
            let mut x = BytesMut::with_capacity(dec(&v["cap"]).max(len));
            x.resize(len, 0x11);
            Box::new(BytesMutSink(x, len))
        }
        "slice" => {
            let n = dec(&v["n"]);
            let a = arena(n);
            let ar: &'static [u8] = unsafe { std::slice::from_raw_parts(a.as_ptr(), a.len()) };
            let cur: &'static mut [u8] = unsafe { std::slice::from_raw_parts_mut(a.as_mut_ptr().add(G), n) };
            Box::new(SliceSink { cur, arena: ar, n })
        }
        "uninit" => {
            let n = dec(&v["n"]);
            let a = arena(n);
            let ar: &'static [u8] = unsafe { std::slice::from_raw_parts(a.as_ptr(), a.len()) };
            let cur: &'static mut [MaybeUninit<u8>] = unsafe { std::slice::from_raw_parts_mut(a.as_mut_ptr().add(G) as *mut MaybeUninit<u8>, n) };
            Box::new(UninitSink { cur, arena: ar, n })
        }
        "chain" => Box::new(D(build_sink(&v["a"])).chain_mut(D(build_sink(&v["b"])))),
        "limit" => Box::new(D(build_sink(&v["t"])).limit(dec(&v["limit"]))),
        "ref" => Box::new(RefSink { inner: Box::into_raw(build_sink(&v["t"])) }),
        "box" => Box::new(BoxSink(Box::new(build_sink(&v["t"])))),
        other => panic!("unknown sink kind {}", other),
    }
}

pub fn run_mut_program(p: &Value, out: &mut String) {
    let mut root: Option<Box<dyn Sink>> = Some(build_sink(&p["tree"]));
    let _ = write!(out, "{{\"i\":0,\"op\":\"reset\",\"pid\":{},\"side\":\"mut\",\"tree\":", p["pid"].as_u64().unwrap_or(0));
    root.as_ref().unwrap().info(out);
    out.push_str("}\n");
    let ops = p["ops"].as_array().cloned().unwrap_or_default();
    for (i, o) in ops.iter().enumerate() {
        let name = o["op"].as_str().unwrap_or("");
        let n = dec(&o["n"]);
        let m = o["m"].as_str().unwrap_or("");
        #[allow(unused_mut)]
        let mut d = bytes_of(&o["d"]);
        let mut rn: i64 = 0;
        let mut flag = true;
        let mut rv: Vec<u8> = vec![];
        crate::intent(out, i + 1, name, m, enc(n));
        let r = catch_unwind(AssertUnwindSafe(|| {
            let b: &mut dyn Sink = &mut **root.as_mut().unwrap();
            match name {
                // (the node's own method, not the `&mut T` forwarder: see main.rs)
                "remaining_mut" => rn = enc(BufMut::remaining_mut(&*b)),
                "has_remaining_mut" => flag = BufMut::has_remaining_mut(&*b),
                "chunk_mut_len" => {
                    rn = enc(b.chunk_mut().len());
                }
                "put" => {
                    let mut v16 = [0u8; 16];
                    let vb = bytes_of(&o["v"]);
                    for (j, x) in vb.iter().rev().enumerate() {
                        if j < 16 {
                            v16[15 - j] = *x;
                        }
                    }
                    if !tables::do_put(b, m, v16, n) {
                        panic!("unknown putter {}", m);
                    }
                }
                "put_slice" => b.put_slice(&d),
                "put_bytes" => b.put_bytes(o["val"].as_u64().unwrap_or(0) as u8, n),
                "put_buf" => b.put_buf(crate::build(&o["src"])),
                "manual" => {
                    // chunk_mut + write + advance_mut, at most n bytes of d in one chunk
                    let c = b.chunk_mut();
                    let k = c.len().min(d.len());
                    let h = k / 2;
                    match m {
                        "bytewise" => {
                            for j in 0..k {
                                c.write_byte(j, d[j]);
                            }
                        }
                        "range" => {
                            c[0..h].copy_from_slice(&d[..h]);
                            c[h..k].copy_from_slice(&d[h..k]);
                        }
                        "from" => {
                            c[..h].copy_from_slice(&d[..h]);
                            c[h..][..k - h].copy_from_slice(&d[h..k]);
                        }
                        "incl" => {
                            if k > 0 {
                                c[..=k - 1][h..=k - 1].copy_from_slice(&d[h..k]);
                                c[..][0..h].copy_from_slice(&d[..h]);
                            }
                        }
                        "ptr" => {
                            if k % 2 == 0 {
                                let p = c.as_mut_ptr();
                                unsafe { std::ptr::copy_nonoverlapping(d.as_ptr(), p, k) };
                            } else {
                                // the MaybeUninit view of the chunk
                                let u = unsafe { c.as_uninit_slice_mut() };
                                for j in 0..k {
                                    u[j].write(d[j]);
                                }
                            }
                        }
                        "oob" => {
                            // indices one past the chunk must panic and write nothing
                            let l = c.len();
                            let p1 = catch_unwind(AssertUnwindSafe(|| c.write_byte(l, 0xEE))).is_ok();
                            let p2 = catch_unwind(AssertUnwindSafe(|| c[l..l + 1].copy_from_slice(&[0xEE]))).is_ok();
                            let p3 = catch_unwind(AssertUnwindSafe(|| c[..=l].len())).is_ok();
                            let p4 = catch_unwind(AssertUnwindSafe(|| c[..k].copy_from_slice(&[0xEE; 70][..k + 1]))).is_ok();
                            flag = !(p1 || p2 || p3 || p4);
                            c[..k].copy_from_slice(&d[..k]);
                        }
                        _ => c[..k].copy_from_slice(&d[..k]),
                    }
                    unsafe { b.advance_mut(k) };
                    rn = k as i64;
                }
                "advance_mut" => unsafe { b.advance_mut(n) },
                "set_limit" => {
                    let path: Vec<u64> = o["path"].as_array().map(|a| a.iter().filter_map(|x| x.as_u64()).collect()).unwrap_or_default();
                    flag = b.set_limit(&path, n);
                }
                #[cfg(feature = "std")]
                "write" if m == "all" => {
                    // write_all: transfers what fits, Ok iff everything fitted; rn = bytes transferred
                    let before = BufMut::remaining_mut(&**root.as_ref().unwrap());
                    let mut w = root.take().unwrap().writer();
                    let got = w.write_all(&d);
                    flag = got.is_ok();
                    let _ = w.flush();
                    root = Some(w.into_inner());
                    let after = BufMut::remaining_mut(&**root.as_ref().unwrap());
                    // (remaining_mut of growing targets saturates: count from the result)
                    rn = if flag { d.len() as i64 } else { before.saturating_sub(after) as i64 };
                }
                #[cfg(feature = "std")]
                "write" if m == "vectored" && d.len() >= 2 => {
                    // write_vectored with two non-empty slices: the provided method writes the first
                    // non-empty slice only, i.e. it is write(first slice) -- logged as such
                    let h = d.len() / 2;
                    let mut w = root.take().unwrap().writer();
                    let got = w.write_vectored(&[std::io::IoSlice::new(&[]), std::io::IoSlice::new(&d[..h]), std::io::IoSlice::new(&d[h..])]);
                    flag = got.is_ok();
                    rn = got.unwrap_or(0) as i64;
                    let fl = w.flush();
                    flag = flag && fl.is_ok();
                    root = Some(w.into_inner());
                    d.truncate(h);
                }
                #[cfg(feature = "std")]
                "write" => {
                    let mut w = root.take().unwrap().writer();
                    let got = w.write(&d);
                    flag = got.is_ok();
                    rn = got.unwrap_or(0) as i64;
                    let fl = w.flush();
                    flag = flag && fl.is_ok();
                    root = Some(w.into_inner());
                }
                _ => panic!("unknown op {}", name),
            }
        }));
        crate::op_done();
        let outk = if r.is_ok() { "ok" } else { "panic" };
        let _ = write!(out, "{{\"i\":{},\"op\":\"{}\",\"path\":{},\"m\":\"{}\",\"n\":{},\"val\":{},\"out\":\"{}\",\"res\":{{\"k\":\"none\",\"n\":{},\"req\":0,\"avail\":0,\"flag\":{},\"v\":", i + 1, name, path_json(o), m, enc(n), o["val"].as_u64().unwrap_or(0), outk, rn, flag);
        jbytes(out, &rv);
        out.push_str(",\"vv\":[]},\"d\":");
        jbytes(out, &d);
        out.push_str(",\"v16\":");
        jbytes(out, &bytes_of(&o["v"]));
        out.push_str(",\"src\":");
        if name == "put_buf" {
            crate::build(&o["src"]).info(out);
        } else {
            out.push_str("{\"k\":\"leaf\",\"ty\":\"slice\",\"limit\":0,\"d\":[]}");
        }
        out.push_str(",\"tree\":");
        match root.as_ref() {
            Some(r) => r.info(out),
            None => out.push_str("{\"k\":\"gone\",\"limit\":0}"),
        }
        out.push_str("}\n");
        rv.clear();
    }
}

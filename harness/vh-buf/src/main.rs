//! Cursor / sink interpreter (C09-C12): builds trees of the crate's Buf / BufMut implementors
//! and adapters from a JSON description, runs operation sequences on the outermost node and
//! records, after every operation, the result and the state of every node of the tree
//! (remaining bytes of each leaf, limit of each Take/Limit) for the TLA+ laws.
use bytes::buf::{Chain, Take};
use bytes::{Buf, Bytes, BytesMut};
use serde_json::Value;
use std::collections::VecDeque;
use std::fmt::Write as _;
#[cfg(feature = "std")]
use std::io::{BufRead, Cursor, IoSlice, Read};
use std::panic::{catch_unwind, AssertUnwindSafe};

#[macro_use]
mod tables;
mod sink;

pub const MAXW: i64 = (1 << 30) - 1;
pub fn enc(x: usize) -> i64 {
    const BAND: usize = 1 << 27;
    if x < (1 << 28) {
        x as i64
    } else if usize::MAX - x < BAND {
        MAXW - (usize::MAX - x) as i64
    } else {
        -1
    }
}
pub fn dec(v: &Value) -> usize {
    if let Some(s) = v.as_str() {
        if s == "max" {
            return usize::MAX;
        }
    }
    if let Some(o) = v.as_object() {
        // {"max": -3} = usize::MAX - 3
        if let Some(d) = o.get("max").and_then(|d| d.as_i64()) {
            return (usize::MAX as i128 + d as i128) as usize;
        }
    }
    v.as_u64().unwrap_or(0) as usize
}

pub fn jbytes(out: &mut String, d: &[u8]) {
    out.push('[');
    for (i, x) in d.iter().enumerate() {
        if i > 0 {
            out.push(',');
        }
        let _ = write!(out, "{}", x);
    }
    out.push(']');
}

pub fn path_json(o: &Value) -> String {
    let p: Vec<String> = o["path"].as_array().map(|a| a.iter().filter_map(|x| x.as_u64()).map(|x| x.to_string()).collect()).unwrap_or_default();
    format!("[{}]", p.join(","))
}

pub fn bytes_of(v: &Value) -> Vec<u8> {
    v.as_array().map(|a| a.iter().map(|x| x.as_u64().unwrap_or(0) as u8).collect()).unwrap_or_default()
}

/// A node of a cursor tree: a `Buf` whose state can be inspected.
pub trait Node: Buf {
    fn info(&self, out: &mut String);
    /// set the limit of the Take node at `path` (sequence of child indices)
    fn set_limit(&mut self, path: &[u64], v: usize) -> bool;
    /// the child with index i, reached through the adapter's public accessor (get_mut / first_mut /
    /// last_mut); leaves have none
    fn child(&mut self, _i: u64) -> Option<&mut dyn Node> {
        None
    }
    /// advance the node at `path` directly, behind the back of the adapters above it
    fn advance_at(&mut self, path: &[u64], n: usize) -> bool {
        match path.first() {
            None => {
                Buf::advance(self, n);
                true
            }
            Some(&i) => match self.child(i) {
                Some(c) => c.advance_at(&path[1..], n),
                None => false,
            },
        }
    }
}

// ---------------------------------------------------------------------------- leaves
pub struct SliceLeaf(&'static [u8]);
pub struct BytesLeaf(Bytes);
pub struct BytesMutLeaf(BytesMut);
#[cfg(feature = "std")]
pub struct CursorLeaf(Cursor<Vec<u8>>);
pub struct DequeLeaf(VecDeque<u8>);
/// honest multi-chunk Buf that relies on the trait's default methods only
pub struct Chunked {
    chunks: Vec<Vec<u8>>,
    cur: usize,
    pos: usize,
}

forward_buf!(SliceLeaf, |s| &s.0, |m| &mut m.0);
forward_buf!(BytesLeaf, |s| &s.0, |m| &mut m.0);
forward_buf!(BytesMutLeaf, |s| &s.0, |m| &mut m.0);
#[cfg(feature = "std")]
forward_buf!(CursorLeaf, |s| &s.0, |m| &mut m.0);
forward_buf!(DequeLeaf, |s| &s.0, |m| &mut m.0);

impl Chunked {
    fn skip_empty(&mut self) {
        while self.cur < self.chunks.len() && self.pos >= self.chunks[self.cur].len() {
            self.cur += 1;
            self.pos = 0;
        }
    }
}
impl Buf for Chunked {
    fn remaining(&self) -> usize {
        let mut n = 0;
        for (i, c) in self.chunks.iter().enumerate() {
            if i == self.cur {
                n += c.len() - self.pos.min(c.len());
            } else if i > self.cur {
                n += c.len();
            }
        }
        n
    }
    fn chunk(&self) -> &[u8] {
        if self.cur < self.chunks.len() {
            &self.chunks[self.cur][self.pos..]
        } else {
            &[]
        }
    }
    fn advance(&mut self, mut cnt: usize) {
        assert!(cnt <= self.remaining(), "Chunked: advance past end");
        while cnt > 0 {
            let left = self.chunks[self.cur].len() - self.pos;
            if cnt < left {
                self.pos += cnt;
                cnt = 0;
            } else {
                cnt -= left;
                self.cur += 1;
                self.pos = 0;
            }
        }
        self.skip_empty();
    }
}
fn leaf_info(out: &mut String, ty: &str, d: &[u8]) {
    let _ = write!(out, "{{\"k\":\"leaf\",\"ty\":\"{}\",\"limit\":0,\"d\":", ty);
    jbytes(out, d);
    out.push('}');
}

impl Node for SliceLeaf {
    fn info(&self, out: &mut String) {
        leaf_info(out, "slice", self.0)
    }
    fn set_limit(&mut self, _: &[u64], _: usize) -> bool {
        false
    }
}
impl Node for BytesLeaf {
    fn info(&self, out: &mut String) {
        leaf_info(out, "bytes", &self.0[..])
    }
    fn set_limit(&mut self, _: &[u64], _: usize) -> bool {
        false
    }
}
impl Node for BytesMutLeaf {
    fn info(&self, out: &mut String) {
        leaf_info(out, "bytesmut", &self.0[..])
    }
    fn set_limit(&mut self, _: &[u64], _: usize) -> bool {
        false
    }
}
#[cfg(feature = "std")]
impl Node for CursorLeaf {
    fn info(&self, out: &mut String) {
        let v = self.0.get_ref();
        let p = (self.0.position() as usize).min(v.len());
        leaf_info(out, "cursor", &v[p..])
    }
    fn set_limit(&mut self, _: &[u64], _: usize) -> bool {
        false
    }
}
impl Node for DequeLeaf {
    fn info(&self, out: &mut String) {
        let v: Vec<u8> = self.0.iter().copied().collect();
        leaf_info(out, "deque", &v)
    }
    fn set_limit(&mut self, _: &[u64], _: usize) -> bool {
        false
    }
}
/// an honest user-defined Buf of (nearly) usize::MAX zero bytes, generated in blocks: lengths that
/// no buffer of the crate can have (sums of two of them overflow usize).  Its programs are only
/// compared between configurations (C16); the law module keeps contents as sequences and never
/// sees them.
pub struct Zeros {
    rem: usize,
}
static ZBLOCK: [u8; 64] = [0; 64];
impl Buf for Zeros {
    fn remaining(&self) -> usize {
        self.rem
    }
    fn chunk(&self) -> &[u8] {
        &ZBLOCK[..self.rem.min(64)]
    }
    fn advance(&mut self, cnt: usize) {
        assert!(cnt <= self.rem, "Zeros: advance past end");
        self.rem -= cnt;
    }
}
impl Node for Zeros {
    fn info(&self, out: &mut String) {
        let _ = write!(out, "{{\"k\":\"leaf\",\"ty\":\"zeros\",\"limit\":0,\"d\":[],\"huge\":{}}}", enc(self.rem));
    }
    fn set_limit(&mut self, _: &[u64], _: usize) -> bool {
        false
    }
}
impl Node for Chunked {
    fn info(&self, out: &mut String) {
        let mut v = Vec::new();
        for (i, c) in self.chunks.iter().enumerate() {
            if i == self.cur {
                v.extend_from_slice(&c[self.pos.min(c.len())..]);
            } else if i > self.cur {
                v.extend_from_slice(c);
            }
        }
        leaf_info(out, "chunked", &v)
    }
    fn set_limit(&mut self, _: &[u64], _: usize) -> bool {
        false
    }
}

// ---------------------------------------------------------------------------- adapters
/// the child of an adapter: forwards EVERY Buf method to the node behind it (see sink.rs `D`)
pub struct DN(pub Box<dyn Node>);
forward_buf!(DN, |s| &*s.0, |m| &mut *m.0);
impl Node for DN {
    fn child(&mut self, i: u64) -> Option<&mut dyn Node> {
        self.0.child(i)
    }
    fn advance_at(&mut self, path: &[u64], n: usize) -> bool {
        self.0.advance_at(path, n)
    }
    fn info(&self, out: &mut String) {
        self.0.info(out)
    }
    fn set_limit(&mut self, path: &[u64], v: usize) -> bool {
        self.0.set_limit(path, v)
    }
}
impl Node for Take<DN> {
    fn child(&mut self, _i: u64) -> Option<&mut dyn Node> {
        Some(&mut *self.get_mut().0)
    }
    fn info(&self, out: &mut String) {
        let _ = write!(out, "{{\"k\":\"take\",\"limit\":{},\"t\":", enc(self.limit()));
        self.get_ref().info(out);
        out.push('}');
    }
    fn set_limit(&mut self, path: &[u64], v: usize) -> bool {
        if path.is_empty() {
            Take::set_limit(self, v);
            true
        } else {
            self.get_mut().set_limit(&path[1..], v)
        }
    }
}
impl Node for Chain<DN, DN> {
    fn child(&mut self, i: u64) -> Option<&mut dyn Node> {
        Some(if i == 0 { &mut *self.first_mut().0 } else { &mut *self.last_mut().0 })
    }
    fn info(&self, out: &mut String) {
        out.push_str("{\"k\":\"chain\",\"limit\":0,\"a\":");
        self.first_ref().info(out);
        out.push_str(",\"b\":");
        self.last_ref().info(out);
        out.push('}');
    }
    fn set_limit(&mut self, path: &[u64], v: usize) -> bool {
        match path.first() {
            Some(0) => self.first_mut().set_limit(&path[1..], v),
            Some(1) => self.last_mut().set_limit(&path[1..], v),
            _ => false,
        }
    }
}
impl Node for Box<dyn Node> {
    fn child(&mut self, i: u64) -> Option<&mut dyn Node> {
        (**self).child(i)
    }
    fn advance_at(&mut self, path: &[u64], n: usize) -> bool {
        (**self).advance_at(path, n)
    }
    fn info(&self, out: &mut String) {
        (**self).info(out)
    }
    fn set_limit(&mut self, path: &[u64], v: usize) -> bool {
        (**self).set_limit(path, v)
    }
}

/// `&mut B`: every call goes through `impl Buf for &mut T` (deref_forward_buf!)
pub struct RefNode {
    inner: *mut dyn Node,
}
impl RefNode {
    fn r(&self) -> &mut dyn Node {
        unsafe { &mut *self.inner }
    }
}
impl Drop for RefNode {
    fn drop(&mut self) {
        unsafe { drop(Box::from_raw(self.inner)) }
    }
}
fn lt<'a, 'b>(s: &'a [u8]) -> &'b [u8] {
    unsafe { std::mem::transmute(s) }
}
// The `&mut dyn Node` is created per call; the returned chunk really lives in the node.
impl Buf for RefNode {
    fn remaining(&self) -> usize {
        let r: &mut dyn Node = self.r();
        <&mut dyn Node as Buf>::remaining(&r)
    }
    fn chunk(&self) -> &[u8] {
        let r: &mut dyn Node = self.r();
        lt(<&mut dyn Node as Buf>::chunk(&r))
    }
    #[cfg(feature = "std")]
    fn chunks_vectored<'a>(&'a self, dst: &mut [IoSlice<'a>]) -> usize {
        let r: &'a mut dyn Node = unsafe { &mut *self.inner };
        let rr: &'a &'a mut dyn Node = Box::leak(Box::new(r));
        <&mut dyn Node as Buf>::chunks_vectored(rr, dst)
    }
    fn advance(&mut self, cnt: usize) {
        let mut r: &mut dyn Node = self.r();
        <&mut dyn Node as Buf>::advance(&mut r, cnt)
    }
    fn has_remaining(&self) -> bool {
        let r: &mut dyn Node = self.r();
        <&mut dyn Node as Buf>::has_remaining(&r)
    }
    fn copy_to_slice(&mut self, dst: &mut [u8]) {
        let mut r: &mut dyn Node = self.r();
        <&mut dyn Node as Buf>::copy_to_slice(&mut r, dst)
    }
    fn try_copy_to_slice(&mut self, dst: &mut [u8]) -> Result<(), bytes::TryGetError> {
        let mut r: &mut dyn Node = self.r();
        <&mut dyn Node as Buf>::try_copy_to_slice(&mut r, dst)
    }
    fn copy_to_bytes(&mut self, len: usize) -> Bytes {
        let mut r: &mut dyn Node = self.r();
        <&mut dyn Node as Buf>::copy_to_bytes(&mut r, len)
    }
    // typed getters: generated list, each through the &mut forwarder
    ref_getters!();
}
impl Node for RefNode {
    fn child(&mut self, _i: u64) -> Option<&mut dyn Node> {
        Some(self.r())
    }
    fn info(&self, out: &mut String) {
        out.push_str("{\"k\":\"ref\",\"limit\":0,\"t\":");
        self.r().info(out);
        out.push('}');
    }
    fn set_limit(&mut self, path: &[u64], v: usize) -> bool {
        self.r().set_limit(if path.is_empty() { path } else { &path[1..] }, v)
    }
}

/// `Box<B>`: every call goes through `impl Buf for Box<T>`
pub struct BoxNode(Box<Box<dyn Node>>);
forward_buf!(BoxNode, |s| &s.0, |m| &mut m.0);
impl Node for BoxNode {
    fn child(&mut self, _i: u64) -> Option<&mut dyn Node> {
        Some(&mut **self.0)
    }
    fn info(&self, out: &mut String) {
        out.push_str("{\"k\":\"box\",\"limit\":0,\"t\":");
        self.0.info(out);
        out.push('}');
    }
    fn set_limit(&mut self, path: &[u64], v: usize) -> bool {
        self.0.set_limit(if path.is_empty() { path } else { &path[1..] }, v)
    }
}

pub fn build(v: &Value) -> Box<dyn Node> {
    match v["k"].as_str().unwrap_or("") {
        "slice" => Box::new(SliceLeaf(Box::leak(bytes_of(&v["d"]).into_boxed_slice()))),
        "bytes" => Box::new(BytesLeaf(Bytes::from(bytes_of(&v["d"])))),
        "bytesmut" => {
            // with spare capacity behind the bytes (len < capacity)
            let d = bytes_of(&v["d"]);
            let mut m = BytesMut::with_capacity(d.len() + 4);
            m.extend_from_slice(&d);
            Box::new(BytesMutLeaf(m))
        }
        #[cfg(feature = "std")]
        "cursor" => {
            let mut c = Cursor::new(bytes_of(&v["d"]));
            c.set_position(v["pos"].as_u64().unwrap_or(0));
            Box::new(CursorLeaf(c))
        }
        "deque" => {
            // build a ring buffer whose as_slices() is (s1, s2)
            let s1 = bytes_of(&v["s1"]);
            let s2 = bytes_of(&v["s2"]);
            let mut d: VecDeque<u8> = VecDeque::with_capacity(s1.len() + s2.len());
            for &b in &s2 {
                d.push_back(b);
            }
            for &b in s1.iter().rev() {
                d.push_front(b);
            }
            Box::new(DequeLeaf(d))
        }
        "chunked" => {
            let chunks: Vec<Vec<u8>> = v["chunks"].as_array().map(|a| a.iter().map(bytes_of).collect()).unwrap_or_default();
            let mut c = Chunked { chunks, cur: 0, pos: 0 };
            c.skip_empty();
            Box::new(c)
        }
        "zeros" => Box::new(Zeros { rem: dec(&v["n"]) }),
        "chain" => Box::new(DN(build(&v["a"])).chain(DN(build(&v["b"])))),
        "take" => Box::new(DN(build(&v["t"])).take(dec(&v["limit"]))),
        "ref" => Box::new(RefNode { inner: Box::into_raw(build(&v["t"])) }),
        "box" => Box::new(BoxNode(Box::new(build(&v["t"])))),
        other => panic!("unknown node kind {}", other),
    }
}

fn be16(out: &mut String, v: &[u8; 16]) {
    jbytes(out, &v[..]);
}

struct Res {
    k: &'static str, // ok | err | none
    v: Vec<u8>,
    vv: Vec<Vec<u8>>,
    n: i64,
    req: i64,
    avail: i64,
    flag: bool,
}
impl Res {
    fn new() -> Res {
        Res { k: "none", v: vec![], vv: vec![], n: 0, req: 0, avail: 0, flag: true }
    }
}

fn run_buf_program(p: &Value, out: &mut String) {
    let mut root: Option<Box<dyn Node>> = Some(build(&p["tree"]));
    let _ = write!(out, "{{\"i\":0,\"op\":\"reset\",\"pid\":{},\"side\":\"buf\",\"tree\":", p["pid"].as_u64().unwrap_or(0));
    root.as_ref().unwrap().info(out);
    out.push_str("}\n");
    let ops = p["ops"].as_array().cloned().unwrap_or_default();
    for (i, o) in ops.iter().enumerate() {
        let name = o["op"].as_str().unwrap_or("");
        let n = dec(&o["n"]);
        let m = o["m"].as_str().unwrap_or("");
        if root.is_none() {
            break;
        }
        let mut res = Res::new();
        intent(out, i + 1, name, m, enc(n));
        let r = catch_unwind(AssertUnwindSafe(|| {
            let b: &mut dyn Node = &mut **root.as_mut().unwrap();
            match name {
                // `b.remaining()` on a `&mut dyn Node` receiver would resolve to the `&mut T` forwarding
                // impl (autoref before deref); call the node's own method (RefNode / BoxNode cover
                // the forwarders)
                "remaining" => res.n = enc(Buf::remaining(&*b)),
                "has_remaining" => res.flag = Buf::has_remaining(&*b),
                "chunk" => res.v = Buf::chunk(&*b).to_vec(),
                "advance" => b.advance(n),
                #[cfg(feature = "std")]
                "chunks_vectored" => {
                    static SENT: [u8; 3] = [250, 251, 252];
                    let k = n.min(64);
                    let mut dst: Vec<IoSlice> = (0..k).map(|_| IoSlice::new(&SENT)).collect();
                    let cnt = b.chunks_vectored(&mut dst);
                    res.n = cnt as i64;
                    res.flag = true;
                    for (j, s) in dst.iter().enumerate() {
                        if j < cnt {
                            res.vv.push(s.to_vec());
                        } else if s.as_ptr() != SENT.as_ptr() || s.len() != 3 {
                            res.flag = false; // dst touched beyond the returned count
                        }
                    }
                }
                "copy_to_slice" => {
                    let mut d = vec![0u8; n.min(1 << 16)];
                    b.copy_to_slice(&mut d);
                    res.v = d;
                }
                "try_copy_to_slice" => {
                    let mut d = vec![0u8; n.min(1 << 16)];
                    match b.try_copy_to_slice(&mut d) {
                        Ok(()) => {
                            res.k = "ok";
                            res.v = d;
                        }
                        Err(e) => {
                            res.k = "err";
                            res.req = enc(e.requested);
                            res.avail = enc(e.available);
                        }
                    }
                }
                "copy_to_bytes" => res.v = b.copy_to_bytes(n).to_vec(),
                "get" => {
                    if m.starts_with("try_") {
                        match tables::do_try_get(b, m, n).expect("unknown getter") {
                            Ok(v) => {
                                res.k = "ok";
                                res.v = v.to_vec();
                            }
                            Err(e) => {
                                res.k = "err";
                                res.req = enc(e.requested);
                                res.avail = enc(e.available);
                            }
                        }
                    } else {
                        res.v = tables::do_get(b, m, n).expect("unknown getter").to_vec();
                    }
                }
                "set_limit" => {
                    let path: Vec<u64> = o["path"].as_array().map(|a| a.iter().filter_map(|x| x.as_u64()).collect()).unwrap_or_default();
                    res.flag = b.set_limit(&path, n);
                }
                "advance_at" => {
                    let path: Vec<u64> = o["path"].as_array().map(|a| a.iter().filter_map(|x| x.as_u64()).collect()).unwrap_or_default();
                    res.flag = b.advance_at(&path, n);
                }
                #[cfg(feature = "std")]
                "read" => {
                    let avail = Buf::remaining(&**root.as_ref().unwrap());
                    let mut rd = root.take().unwrap().reader();
                    match m {
                        // read_exact of something that is there; read_vectored with an empty first
                        // buffer; read_to_end into a Vec that already holds data (logged n = MAX)
                        "exact" if n <= avail => {
                            let mut d = vec![0u8; n.min(1 << 16)];
                            let got = rd.read_exact(&mut d);
                            res.flag = got.is_ok();
                            res.n = d.len() as i64;
                            res.v = d;
                        }
                        "vectored" => {
                            let mut d = vec![0u8; n.min(1 << 16)];
                            let mut e: [u8; 0] = [];
                            let got = {
                                let mut bufs = [std::io::IoSliceMut::new(&mut e), std::io::IoSliceMut::new(&mut d)];
                                rd.read_vectored(&mut bufs)
                            };
                            res.flag = got.is_ok();
                            let g = got.unwrap_or(0);
                            res.n = g as i64;
                            d.truncate(g);
                            res.v = d;
                        }
                        "to_string" => {
                            // text: Ok(number of bytes) and the whole remaining sequence appended when it is
                            // valid UTF-8 (the law knows ASCII and two-byte characters; otherwise it is silent)
                            let mut s = String::from("ab");
                            let got = rd.read_to_string(&mut s);
                            res.flag = got.is_ok() && s.as_bytes().starts_with(b"ab");
                            res.n = got.unwrap_or(0) as i64;
                            res.v = s.as_bytes()[2.min(s.len())..].to_vec();
                        }
                        "to_end" => {
                            let mut d = vec![7u8, 7, 7];
                            let got = rd.read_to_end(&mut d);
                            res.flag = got.is_ok();
                            res.n = got.unwrap_or(0) as i64;
                            res.flag = res.flag && d[..3] == [7, 7, 7];
                            res.v = d[3..].to_vec();
                        }
                        _ => {
                            let mut d = vec![0u8; n.min(1 << 16)];
                            let got = rd.read(&mut d);
                            res.flag = got.is_ok();
                            let g = got.unwrap_or(0);
                            res.n = g as i64;
                            d.truncate(g);
                            res.v = d;
                        }
                    }
                    root = Some(rd.into_inner());
                }
                #[cfg(feature = "std")]
                "fill_buf" => {
                    let mut rd = root.take().unwrap().reader();
                    match rd.fill_buf() {
                        Ok(s) => res.v = s.to_vec(),
                        Err(_) => res.flag = false,
                    }
                    root = Some(rd.into_inner());
                }
                #[cfg(feature = "std")]
                "consume" => {
                    let mut rd = root.take().unwrap().reader();
                    let r2 = catch_unwind(AssertUnwindSafe(|| rd.consume(n)));
                    root = Some(rd.into_inner());
                    if let Err(e) = r2 {
                        std::panic::resume_unwind(e);
                    }
                }
                "into_iter" if m != "" => {
                    // the same through an IntoIter over `&mut B` and the consuming Iterator methods
                    // (a by-value override of fold / for_each / collect must still leave the
                    // underlying buffer advanced)
                    let b: &mut dyn Node = &mut **root.as_mut().unwrap();
                    let it = bytes::buf::IntoIter::new(b);
                    let hint = it.size_hint();
                    res.n = enc(hint.0);
                    res.flag = hint.1 == Some(hint.0) && it.len() == hint.0;
                    res.v = match m {
                        "fold" => it.fold(Vec::new(), |mut a, x| {
                            a.push(x);
                            a
                        }),
                        "for_each" => {
                            let mut a = Vec::new();
                            it.for_each(|x| a.push(x));
                            a
                        }
                        "collect" => it.collect::<Vec<u8>>(),
                        "rev_chain" => it.chain(std::iter::empty()).collect::<Vec<u8>>(),
                        _ => {
                            let mut it = it;
                            let mut a = Vec::new();
                            while let Some(x) = it.next() {
                                a.push(x);
                            }
                            a
                        }
                    };
                }
                "iter_nth" => {
                    let b: &mut dyn Node = &mut **root.as_mut().unwrap();
                    let mut it = bytes::buf::IntoIter::new(b);
                    let got = match m {
                        "skip" => it.skip(n).next(),
                        _ => it.nth(n),
                    };
                    res.v = got.into_iter().collect();
                }
                "into_iter" => {
                    let it = bytes::buf::IntoIter::new(root.take().unwrap());
                    let hint = it.size_hint();
                    res.n = enc(hint.0);
                    res.flag = hint.1 == Some(hint.0);
                    let mut it = it;
                    let mut v = Vec::new();
                    while let Some(x) = it.next() {
                        v.push(x);
                        if v.len() > 1 << 16 {
                            break;
                        }
                    }
                    res.v = v;
                    root = Some(it.into_inner());
                }
                _ => panic!("unknown op {}", name),
            }
        }));
        op_done();
        let outk = if r.is_ok() { "ok" } else { "panic" };
        let _ = write!(out, "{{\"i\":{},\"op\":\"{}\",\"path\":{},\"m\":\"{}\",\"n\":{},\"out\":\"{}\",\"res\":{{\"k\":\"{}\",\"n\":{},\"req\":{},\"avail\":{},\"flag\":{},\"v\":", i + 1, name, path_json(o), m, enc(n), outk, res.k, res.n, res.req, res.avail, res.flag);
        jbytes(out, &res.v);
        out.push_str(",\"vv\":[");
        for (j, s) in res.vv.iter().enumerate() {
            if j > 0 {
                out.push(',');
            }
            jbytes(out, s);
        }
        out.push_str("]},\"tree\":");
        match root.as_ref() {
            Some(r) => r.info(out),
            None => out.push_str("{\"k\":\"gone\",\"limit\":0}"),
        }
        out.push_str("}\n");
    }
    let _ = be16;
}

// ---------------------------------------------------------------- crash / hang isolation
// Every event is written to the output file as soon as it is complete, and an `#intent` line
// (the event with outcome "abort") is written before each operation.  A watchdog thread ends
// the process when one operation runs for more than a few seconds (`#hang`).  The driver turns
// the last intent into an `abort` / `hang` event and restarts behind the program.
pub static OUTF: std::sync::Mutex<Option<std::fs::File>> = std::sync::Mutex::new(None);
pub static OPSER: std::sync::atomic::AtomicU64 = std::sync::atomic::AtomicU64::new(0);

pub fn flush_out(out: &mut String) {
    if let Some(f) = OUTF.lock().unwrap().as_mut() {
        use std::io::Write as _;
        let _ = f.write_all(out.as_bytes());
    }
    out.clear();
}

pub fn intent(out: &mut String, i: usize, name: &str, m: &str, n: i64) {
    flush_out(out);
    let mut s = String::new();
    let _ = write!(
        s,
        "#intent {{\"i\":{},\"op\":\"{}\",\"path\":[],\"m\":\"{}\",\"n\":{},\"val\":0,\"out\":\"abort\",\"res\":{{\"k\":\"none\",\"n\":0,\"req\":0,\"avail\":0,\"flag\":true,\"v\":[],\"vv\":[]}},\"d\":[],\"v16\":[],\"src\":{{\"k\":\"leaf\",\"ty\":\"slice\",\"limit\":0,\"d\":[]}},\"tree\":{{\"k\":\"gone\",\"limit\":0}}}}\n",
        i, name, m, n
    );
    flush_out(&mut s);
    OPSER.fetch_add(1, std::sync::atomic::Ordering::SeqCst);
}

pub fn op_done() {
    OPSER.fetch_add(1, std::sync::atomic::Ordering::SeqCst);
}

fn watchdog() {
    std::thread::spawn(|| {
        let mut last = 0u64;
        let mut since = std::time::Instant::now();
        loop {
            std::thread::sleep(std::time::Duration::from_millis(100));
            let s = OPSER.load(std::sync::atomic::Ordering::SeqCst);
            if s != last {
                last = s;
                since = std::time::Instant::now();
            } else if s % 2 == 1 && since.elapsed() > std::time::Duration::from_secs(4) {
                if let Ok(mut g) = OUTF.try_lock() {
                    if let Some(f) = g.as_mut() {
                        use std::io::Write as _;
                        let _ = f.write_all(b"#hang\n");
                    }
                }
                std::process::exit(124);
            }
        }
    });
}

fn main() {
    let args: Vec<String> = std::env::args().collect();
    let mut programs = String::new();
    let mut outp = String::from("/dev/stdout");
    let mut start = 0usize;
    let mut i = 1;
    while i < args.len() {
        match args[i].as_str() {
            "--programs" => {
                programs = args[i + 1].clone();
                i += 1;
            }
            "--out" => {
                outp = args[i + 1].clone();
                i += 1;
            }
            "--start" => {
                start = args[i + 1].parse().expect("--start N");
                i += 1;
            }
            _ => {
                eprintln!("unknown arg {}", args[i]);
                std::process::exit(2);
            }
        }
        i += 1;
    }
    std::panic::set_hook(Box::new(|_| {}));
    let text = std::fs::read_to_string(&programs).expect("read programs");
    let f = if start > 0 {
        std::fs::OpenOptions::new().append(true).open(&outp).expect("open out")
    } else {
        std::fs::File::create(&outp).expect("create out")
    };
    *OUTF.lock().unwrap() = Some(f);
    watchdog();
    let mut out = String::new();
    for (pi, line) in text.lines().filter(|l| !l.trim().is_empty()).enumerate() {
        if pi < start {
            continue;
        }
        let p: Value = serde_json::from_str(line).expect("program json");
        out.clear();
        if p["side"].as_str() == Some("mut") {
            sink::run_mut_program(&p, &mut out);
        } else {
            run_buf_program(&p, &mut out);
        }
        flush_out(&mut out);
    }
}

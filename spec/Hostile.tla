------------------------------- MODULE Hostile -------------------------------
(***************************************************************************)
(* C17: misbehaving safe trait implementations cannot make the crate       *)
(* memory-unsafe.  The ENVIRONMENT is a Buf whose every answer is          *)
(* arbitrary: remaining() any value incl. usize::MAX, chunk() a slice of   *)
(* any length (backed by real memory of R bytes), advance() returns or     *)
(* panics, chunks_vectored() reports any count.  The CONSUMERS transcribe  *)
(* the crate's entry points that poll such an object (src/buf/buf_impl.rs, *)
(* buf_mut.rs, bytes_mut.rs, take.rs, chain.rs, reader.rs, iter.rs); every *)
(* memory access they make is recorded as Copy(n, srcLen, dstRoom) or      *)
(* Index(i, len).                                                          *)
(*                                                                         *)
(*  Invariant NoOOB: every copy length is bounded by the ACTUAL source     *)
(*  slice and the ACTUAL destination room, every index is in range.        *)
(*  Generator: the recorded answer sequence of every maximal behaviour is  *)
(*  a fault schedule; it is replayed on the real code by ScriptBuf.        *)
(***************************************************************************)
EXTENDS Integers, Sequences, FiniteSets, TLC, Json

CONSTANTS
  MAXW,        \* stands for usize::MAX
  R,           \* bytes really behind the hostile buffer's chunks
  MaxCalls,    \* the environment lies for at most this many calls, then it is honest and empty
  Consumers,   \* consumers explored
  Emit, SampleK,
  Mutation     \* "none" | name of a seeded consumer mutant (self-test)

VARIABLES consumer, pc, calls, script, reg, room, left, limit, oob, done, param

vars == <<consumer, pc, calls, script, reg, room, left, limit, oob, done, param>>
View == <<consumer, pc, calls, script, reg, room, left, limit, oob, done, param>>

Min2(a, b) == IF a <= b THEN a ELSE b
RemDom == {0, 1, 2, 3, MAXW}
ChunkDom == 0..R
CntDom == {0, 1, 2, 5}
Lying == calls < MaxCalls

Ans(kind, v) == [kind |-> kind, v |-> v]

\* environment calls: each consumes one script entry while the environment still lies
EnvRem(v) == /\ v \in (IF Lying THEN RemDom ELSE {0})
EnvChunk(v) == /\ v \in (IF Lying THEN ChunkDom ELSE {0})
EnvAdv(p) == /\ p \in (IF Lying THEN {"ok", "panic"} ELSE {"ok"})
EnvCnt(v) == /\ v \in (IF Lying THEN CntDom ELSE {0})

\* after the script the buffer is honest and empty; a consumer that keeps polling it is cut
\* off (ScriptBuf panics "script exhausted")
Call(kind, v) == /\ calls < MaxCalls + 3
                 /\ calls' = calls + 1
                 /\ script' = IF Lying THEN Append(script, Ans(kind, v)) ELSE script

Copy(n, srcLen, dstRoom) == oob' = (oob \/ n > srcLen \/ n > dstRoom)
Finish(how) == done' = how /\ pc' = "end"

Params == [bmput |-> {0, 2}, vecput |-> {0, 2}, defput |-> {0, 1, 3}, trycopy |-> {1, 3}, getx |-> {2, 4}, ctb |-> {1, 3},
           reader |-> {1, 2}, iter |-> {0}, takevec |-> {0, 1, 3}, chainvec |-> {1, 3}]

Init ==
  /\ consumer \in Consumers
  /\ param \in Params[consumer]
  /\ pc = "start" /\ calls = 0 /\ script = <<>> /\ reg = 0 /\ oob = FALSE /\ done = "run"
  /\ room = param /\ left = param /\ limit = param

Unch(S) == UNCHANGED S

(*------------------------------------------------------------------------*)
(* BytesMut::put / Vec::put:  while src.has_remaining() { s = src.chunk(); *)
(*   l = s.len(); self.extend_from_slice(s); src.advance(l) }              *)
(* Vec::put first does self.reserve(src.remaining()).                      *)
(* The destination grows, so its room is whatever reserve() provided.      *)
(*------------------------------------------------------------------------*)
GrowPut ==
  /\ consumer \in {"bmput", "vecput", "ctb"}
  /\ \/ /\ pc = "start"
        /\ IF consumer = "vecput" \/ (consumer = "bmput" /\ Mutation = "bmput_reserve_once")
           THEN \E v \in RemDom : EnvRem(v) /\ Call("rem", v)
                  /\ (IF v = MAXW THEN (Finish("panic") /\ room' = room)      \* capacity overflow
                      ELSE (pc' = "loop" /\ done' = done /\ room' = room + v))
           ELSE IF consumer = "ctb"
           THEN \* default copy_to_bytes(n): if remaining() < n panic; BytesMut::with_capacity(n).put(self.take(n))
                \E v \in RemDom : EnvRem(v) /\ Call("rem", v)
                  /\ (IF v < param THEN Finish("panic") ELSE (pc' = "loop" /\ done' = done))
                  /\ room' = param
           ELSE (pc' = "loop" /\ Unch(<<calls, script, done, room>>))
        /\ Unch(<<consumer, reg, left, limit, oob, param>>)
     \/ /\ pc = "loop"                      \* has_remaining(): for ctb through Take: min(inner, limit)
        /\ \E v \in RemDom : EnvRem(v) /\ Call("rem", v)
             /\ LET r == IF consumer = "ctb" THEN Min2(v, limit) ELSE v IN
                (IF r = 0 THEN Finish("ok") ELSE (pc' = "chunk" /\ done' = done))
        /\ Unch(<<consumer, reg, room, left, limit, oob, param>>)
     \/ /\ pc = "chunk"
        /\ \E v \in ChunkDom : EnvChunk(v) /\ Call("chunk", v)
             /\ LET l == IF consumer = "ctb" THEN Min2(v, limit) ELSE v IN
                /\ reg' = l
                \* extend_from_slice(s): reserve(l) makes room >= l, then copies exactly l = |s| bytes
                /\ (IF consumer = "bmput" /\ Mutation = "bmput_reserve_once"
                    THEN (Copy(l, l, room) /\ room' = IF room >= l THEN room - l ELSE 0)
                    ELSE (Copy(l, l, l) /\ room' = room))
        /\ pc' = "adv"
        /\ Unch(<<consumer, left, limit, done, param>>)
     \/ /\ pc = "adv"
        /\ \E p \in {"ok", "panic"} : EnvAdv(p) /\ Call("adv", IF p = "ok" THEN 0 ELSE 1)
             /\ (IF consumer = "ctb" /\ reg > limit THEN (Finish("panic") /\ limit' = limit)       \* Take::advance asserts cnt <= limit
                 ELSE IF p = "panic" THEN (Finish("panic") /\ limit' = limit)
                 ELSE (pc' = "loop" /\ done' = done /\ limit' = IF consumer = "ctb" THEN limit - reg ELSE limit))
        /\ Unch(<<consumer, reg, room, left, oob, param>>)

(*------------------------------------------------------------------------*)
(* default BufMut::put into a fixed destination of `room` bytes,           *)
(* try_copy_to_slice(dst of `left` bytes), Reader::read                    *)
(*------------------------------------------------------------------------*)
FixedCopy ==
  /\ consumer \in {"defput", "trycopy", "reader", "getx"}
  /\ \/ /\ pc = "start"                     \* up-front length check against remaining()
        /\ \E v \in RemDom : EnvRem(v) /\ Call("rem", v)
             /\ CASE consumer = "defput" -> (left' = left /\ (IF room < v THEN Finish("panic") ELSE (pc' = "loop" /\ done' = done)))
                  [] consumer = "trycopy" -> (left' = left /\ (IF v < left THEN Finish("err") ELSE (pc' = "copy" /\ done' = done)))
                  \* Reader::read: len = min(remaining(), dst.len()); copy_to_slice(&mut dst[..len])
                  [] consumer = "reader" -> (pc' = "recheck" /\ done' = done /\ left' = Min2(v, param))
                  [] consumer = "getx" -> (left' = left /\ (IF v < param THEN Finish("err") ELSE (pc' = "fast" /\ done' = done)))
        /\ Unch(<<consumer, reg, room, limit, oob, param>>)
     \/ /\ pc = "recheck" /\ consumer = "reader"   \* copy_to_slice asks remaining() again: if remaining() < dst.len() { panic }
        /\ \E v \in RemDom : EnvRem(v) /\ Call("rem", v)
             /\ (IF v < left THEN Finish("panic") ELSE (pc' = "copy" /\ done' = done))
        /\ Unch(<<consumer, reg, room, left, limit, oob, param>>)
     \/ /\ pc = "fast" /\ consumer = "getx"  \* chunk().get(..SIZE): checked against the slice actually returned
        /\ \E v \in ChunkDom : EnvChunk(v) /\ Call("chunk", v)
             /\ (IF v >= param
                 THEN (Copy(param, v, param) /\ pc' = "fastadv")
                 ELSE (oob' = oob /\ pc' = "copy"))
        /\ Unch(<<consumer, reg, room, left, limit, done, param>>)
     \/ /\ pc = "fastadv"
        /\ \E p \in {"ok", "panic"} : EnvAdv(p) /\ Call("adv", IF p = "ok" THEN 0 ELSE 1) /\ Finish(p)
        /\ Unch(<<consumer, reg, room, left, limit, oob, param>>)
     \/ /\ pc = "loop" /\ consumer = "defput"   \* while src.has_remaining()
        /\ \E v \in RemDom : EnvRem(v) /\ Call("rem", v)
             /\ (IF v = 0 THEN Finish("ok") ELSE (pc' = "copy" /\ done' = done))
        /\ Unch(<<consumer, reg, room, left, limit, oob, param>>)
     \/ /\ pc = "copy"
        /\ (consumer \in {"trycopy", "reader", "getx"} /\ left = 0) = FALSE
        /\ \E v \in ChunkDom : EnvChunk(v) /\ Call("chunk", v)
             /\ LET dstroom == IF consumer = "defput" THEN room ELSE left
                    cnt == Min2(v, dstroom)
                IN /\ Copy(cnt, v, dstroom)
                   /\ reg' = cnt
                   /\ (IF consumer = "defput" THEN (room' = room - cnt /\ left' = left) ELSE (left' = left - cnt /\ room' = room))
        /\ pc' = "adv"
        /\ Unch(<<consumer, limit, done, param>>)
     \/ /\ pc = "copy" /\ consumer \in {"trycopy", "reader", "getx"} /\ left = 0
        /\ Finish("ok")
        /\ Unch(<<consumer, calls, script, reg, room, left, limit, oob, param>>)
     \/ /\ pc = "adv"
        /\ \E p \in {"ok", "panic"} : EnvAdv(p) /\ Call("adv", IF p = "ok" THEN 0 ELSE 1)
             /\ (IF p = "panic" THEN Finish("panic")
                 ELSE (done' = done /\ pc' = IF consumer = "defput" THEN "loop" ELSE "copy"))
        /\ Unch(<<consumer, reg, room, left, limit, oob, param>>)

(*------------------------------------------------------------------------*)
(* IntoIter::next: if has_remaining() { b = chunk()[0]; advance(1) }       *)
(*------------------------------------------------------------------------*)
Iter ==
  /\ consumer = "iter"
  /\ \/ /\ pc \in {"start", "loop"}
        /\ \E v \in RemDom : EnvRem(v) /\ Call("rem", v)
             /\ (IF v = 0 THEN Finish("ok") ELSE (pc' = "chunk" /\ done' = done))
        /\ Unch(<<consumer, reg, room, left, limit, oob, param>>)
     \/ /\ pc = "chunk"
        /\ \E v \in ChunkDom : EnvChunk(v) /\ Call("chunk", v)
             /\ (IF v = 0 THEN Finish("panic") ELSE (pc' = "adv" /\ done' = done))      \* index 0 of an empty slice panics
        /\ Unch(<<consumer, reg, room, left, limit, oob, param>>)
     \/ /\ pc = "adv"
        /\ \E p \in {"ok", "panic"} : EnvAdv(p) /\ Call("adv", IF p = "ok" THEN 0 ELSE 1)
             /\ (IF p = "panic" THEN Finish("panic") ELSE (pc' = "loop" /\ done' = done))
        /\ Unch(<<consumer, reg, room, left, limit, oob, param>>)

(*------------------------------------------------------------------------*)
(* Take::chunks_vectored / Chain::chunks_vectored with a lying count:      *)
(* the count returned by the inner buffer indexes dst (dst[..cnt],         *)
(* dst[n..]) - slice indexing panics when it exceeds dst.len() = param     *)
(*------------------------------------------------------------------------*)
Vectored ==
  /\ consumer \in {"takevec", "chainvec"}
  /\ pc = "start"
  /\ \E v \in CntDom : EnvCnt(v) /\ Call("cnt", v)
       /\ (IF v > param THEN Finish("panic") ELSE Finish("ok"))
  /\ Unch(<<consumer, reg, room, left, limit, oob, param>>)

Exhausted ==
  /\ pc # "end" /\ calls >= MaxCalls + 3
  /\ Finish("exhausted")
  /\ Unch(<<consumer, calls, script, reg, room, left, limit, oob, param>>)

Next == GrowPut \/ FixedCopy \/ Iter \/ Vectored \/ Exhausted

Spec == Init /\ [][Next]_vars

NoOOB == ~oob

EmitDone == (Emit /\ pc = "end" /\ RandomElement(1..SampleK) = 1) =>
              PrintT(<<"REPLAY", ToJson([consumer |-> consumer, param |-> param, script |-> script, model_outcome |-> done])>>)
=============================================================================

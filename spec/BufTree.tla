------------------------------- MODULE BufTree -------------------------------
(***************************************************************************)
(* Design model of the crate's cursor adapters and default methods         *)
(* (src/buf/chain.rs, take.rs, vec_deque.rs, buf_impl.rs), implementation- *)
(* shaped: leaves present their bytes in CHUNKS as the real objects do,    *)
(* every operation is transcribed from the code (Chain::advance,           *)
(* Chain::chunks_vectored with the completeness test, Take's 16-slot       *)
(* scratch array and last-slice trimming, VecDeque's two slices, the       *)
(* default chunks_vectored / try_copy_to_slice / copy_to_bytes loops, the  *)
(* fast and slow path of the typed getters).                               *)
(*                                                                         *)
(* TLC builds every tree up to the bounds (actions of BufGen), applies     *)
(* every operation with every boundary argument and checks that the result *)
(* is accepted by the law monitor BufLaws.BufStep (invariant LawsAccept):  *)
(* the design of the adapters satisfies C09, C10 and the read side of C12  *)
(* for all trees / chunkings / arguments within the bounds.                *)
(***************************************************************************)
EXTENDS BufGen

CONSTANT DesignMutation   \* "none" | "chain_vec_prefix" (the code before fix 3eb1026) | "take_limit" (seeded C09-A)

VARIABLES dt, badlaws, nops, pred
dvars == <<stack, phase, tree0, tree, ops, nleaf, dt, badlaws, nops, pred>>

\* ---------------------------------------------------------------- leaves
RECURSIVE SplitBy(_, _)
SplitBy(d, cl) == IF cl = <<>> THEN <<>> ELSE <<Take(d, Head(cl))>> \o SplitBy(Drop(d, Head(cl)), Tail(cl))
Chunks(l) == SplitBy(l.d, l.cl)
NonEmpty(ss) == SelectSeq(ss, LAMBDA c : c # <<>>)

RECURSIVE DropCl(_, _)
DropCl(cl, n) == IF n = 0 \/ cl = <<>> THEN cl
                 ELSE IF Head(cl) <= n THEN DropCl(Tail(cl), n - Head(cl))
                 ELSE <<Head(cl) - n>> \o Tail(cl)

\* ---------------------------------------------------------------- the trait, per node
RECURSIVE DRem(_), DChunk(_), DAdv(_, _), DVec(_, _), DCtb(_, _)

SatAdd(a, b) == Min2(MAXW, a + b)

DRem(t) ==
  CASE t.k = "leaf" -> Len(t.d)
    [] t.k = "chain" -> SatAdd(DRem(t.a), DRem(t.b))
    [] t.k = "take" -> Min2(DRem(t.t), t.limit)
    [] OTHER -> DRem(t.t)

DChunk(t) ==
  CASE t.k = "leaf" -> LET ne == NonEmpty(Chunks(t)) IN IF ne = <<>> THEN <<>> ELSE ne[1]
    [] t.k = "chain" -> IF DRem(t.a) > 0 THEN DChunk(t.a) ELSE DChunk(t.b)
    [] t.k = "take" -> LET c == DChunk(t.t) IN Take(c, Min2(Len(c), t.limit))
    [] OTHER -> DChunk(t.t)

\* advance: [ok |-> BOOLEAN, t |-> tree]  (ok = FALSE: the call panics; the tree then is
\* whatever the partial execution left behind)
DAdv(t, n) ==
  CASE t.k = "leaf" ->
         IF n > Len(t.d) THEN [ok |-> FALSE, t |-> t]
         ELSE [ok |-> TRUE, t |-> [t EXCEPT !.d = Drop(@, n), !.cl = DropCl(@, n)]]
    [] t.k = "chain" ->
         LET ar == DRem(t.a) IN
         IF ar # 0 THEN
              IF ar >= n THEN LET r == DAdv(t.a, n) IN [ok |-> r.ok, t |-> [t EXCEPT !.a = r.t]]
              ELSE LET r1 == DAdv(t.a, ar)
                       r2 == DAdv(t.b, n - ar)
                   IN [ok |-> r1.ok /\ r2.ok, t |-> [t EXCEPT !.a = r1.t, !.b = r2.t]]
         ELSE LET r == DAdv(t.b, n) IN [ok |-> r.ok, t |-> [t EXCEPT !.b = r.t]]
    [] t.k = "take" ->
         IF n > t.limit THEN [ok |-> FALSE, t |-> t]              \* assert!(cnt <= self.limit)
         ELSE LET r == DAdv(t.t, n) IN [ok |-> r.ok, t |-> IF r.ok THEN [t EXCEPT !.t = r.t, !.limit = @ - n] ELSE [t EXCEPT !.t = r.t]]
    [] OTHER -> LET r == DAdv(t.t, n) IN [ok |-> r.ok, t |-> [t EXCEPT !.t = r.t]]

RECURSIVE SumLen(_), TrimTake(_, _)
SumLen(ss) == IF ss = <<>> THEN 0 ELSE Len(Head(ss)) + SumLen(Tail(ss))
\* Take::chunks_vectored: walk the inner slices, stop at the one that reaches the limit
TrimTake(ss, lim) ==
  IF ss = <<>> THEN <<>>
  ELSE IF Len(Head(ss)) >= lim THEN <<Take(Head(ss), lim)>>
  ELSE <<Head(ss)>> \o TrimTake(Tail(ss), lim - Len(Head(ss)))

\* chunks_vectored with k slots: the slices written (their count is the return value)
DVec(t, k) ==
  CASE t.k = "leaf" ->
         IF k = 0 THEN <<>>
         ELSE LET ne == NonEmpty(Chunks(t)) IN
              IF ne = <<>> THEN <<>>
              ELSE IF t.ty = "deque" THEN (IF Len(ne) >= 2 /\ k >= 2 THEN <<ne[1], ne[2]>> ELSE <<ne[1]>>)
              ELSE IF t.ty = "chainn" THEN Take(ne, Min2(Len(ne), k))       \* a real Chain of slices
              ELSE <<ne[1]>>                                               \* default: the first chunk only
    [] t.k = "chain" ->
         LET sa == DVec(t.a, k) IN
         \* (fix 3eb1026) b may only follow once a's slices cover all of a
         IF SumLen(sa) = DRem(t.a) \/ DesignMutation = "chain_vec_prefix" THEN sa \o DVec(t.b, k - Len(sa)) ELSE sa
    [] t.k = "take" ->
         IF t.limit = 0 THEN <<>>
         ELSE TrimTake(DVec(t.t, Min2(k, 16)), t.limit)
    [] OTHER -> DVec(t.t, k)

\* default try_copy_to_slice loop: n bytes through chunk()/advance(); returns [bytes, t]
RECURSIVE CopyLoop(_, _, _)
CopyLoop(t, n, acc) ==
  IF n = 0 THEN [v |-> acc, t |-> t, ok |-> TRUE]
  ELSE LET c == DChunk(t)
           cnt == Min2(Len(c), n)
       IN IF cnt = 0 THEN [v |-> acc, t |-> t, ok |-> FALSE]     \* an honest buffer never gets here
          ELSE LET r == DAdv(t, cnt) IN
               IF ~r.ok THEN [v |-> acc, t |-> r.t, ok |-> FALSE]
               ELSE CopyLoop(r.t, n - cnt, acc \o Take(c, cnt))

\* copy_to_bytes: [ok, v, t]
DCtb(t, n) ==
  CASE t.k = "leaf" /\ t.ty \in {"bytes", "bytesmut"} ->          \* split_to(n)
         IF n > Len(t.d) THEN [ok |-> FALSE, v |-> <<>>, t |-> t]
         ELSE [ok |-> TRUE, v |-> Take(t.d, n), t |-> [t EXCEPT !.d = Drop(@, n), !.cl = DropCl(@, n)]]
    [] t.k = "chain" /\ ~(t.k = "leaf") ->
         LET ar == DRem(t.a) IN
         IF ar >= n THEN LET r == DCtb(t.a, n) IN [ok |-> r.ok, v |-> r.v, t |-> [t EXCEPT !.a = r.t]]
         ELSE IF ar = 0 THEN LET r == DCtb(t.b, n) IN [ok |-> r.ok, v |-> r.v, t |-> [t EXCEPT !.b = r.t]]
         ELSE IF n - ar > DRem(t.b) THEN [ok |-> FALSE, v |-> <<>>, t |-> t]
         ELSE LET r1 == CopyLoop(t.a, ar, <<>>)                    \* ret.put(&mut self.a)
                  r2 == CopyLoop(t.b, n - ar, <<>>)                \* ret.put((&mut self.b).take(len - a_rem))
              IN [ok |-> r1.ok /\ r2.ok, v |-> r1.v \o r2.v, t |-> [t EXCEPT !.a = r1.t, !.b = r2.t]]
    [] t.k = "take" ->
         IF n > DRem(t) THEN [ok |-> FALSE, v |-> <<>>, t |-> t]
         ELSE LET r == DCtb(t.t, n) IN [ok |-> r.ok, v |-> r.v, t |-> IF r.ok THEN [t EXCEPT !.t = r.t, !.limit = @ - n] ELSE [t EXCEPT !.t = r.t]]
    [] t.k \in {"ref", "box"} -> LET r == DCtb(t.t, n) IN [ok |-> r.ok, v |-> r.v, t |-> [t EXCEPT !.t = r.t]]
    [] OTHER ->                                                     \* default: BytesMut <- put(self.take(len))
         IF DRem(t) < n THEN [ok |-> FALSE, v |-> <<>>, t |-> t]
         ELSE LET r == CopyLoop(t, n, <<>>) IN [ok |-> r.ok, v |-> r.v, t |-> r.t]

\* the law-format view of a design tree (chunk structure and construction details dropped)
RECURSIVE Proj(_)
Proj(t) ==
  CASE t.k = "leaf" -> [k |-> "leaf", ty |-> t.ty, limit |-> 0, d |-> t.d]
    [] t.k = "chain" -> [k |-> "chain", limit |-> 0, a |-> Proj(t.a), b |-> Proj(t.b)]
    [] t.k = "take" -> [k |-> "take", limit |-> t.limit, t |-> Proj(t.t)]
    [] t.k \in {"ref", "box"} -> [k |-> t.k, limit |-> 0, t |-> Proj(t.t)]
    [] OTHER -> t

Res0 == [k |-> "none", n |-> 0, req |-> 0, avail |-> 0, flag |-> TRUE, v |-> <<>>, vv |-> <<>>]
Ev(op, m, n, out, res, t2) == [i |-> nops + 1, op |-> op, path |-> <<>>, m |-> m, n |-> n, out |-> out, res |-> res, tree |-> Proj(t2)]

\* typed getters: buf_try_get_impl! (fast path from chunk(), slow path through copy_to_slice)
DGet(t, m, n) ==
  LET w == Width(m, n)
      try == Methods[m].try
  IN IF DRem(t) < w
     THEN (IF try THEN [out |-> "ok", res |-> [Res0 EXCEPT !.k = "err", !.req = w, !.avail = DRem(t)], t |-> t]
           ELSE [out |-> "panic", res |-> Res0, t |-> t])
     ELSE LET c == DChunk(t)
              fast == Len(c) >= w /\ ~Methods[m].var
              r == IF fast THEN LET a == DAdv(t, w) IN [v |-> Take(c, w), t |-> a.t, ok |-> a.ok] ELSE CopyLoop(t, w, <<>>)
          IN IF ~r.ok THEN [out |-> "panic", res |-> Res0, t |-> r.t]
             ELSE [out |-> "ok", res |-> [Res0 EXCEPT !.k = IF try THEN "ok" ELSE "none", !.v = Decode(m, r.v)], t |-> r.t]

\* ---------------------------------------------------------------- one design step
Check(e) == LET R == BufStep(Proj(dt), e) IN
            /\ badlaws' = badlaws \cup R.V
            \* program and predicted observations (bindings G and D)
            /\ ops' = Append(ops, OpRec(e.op, e.m, e.n, <<>>, <<>>, <<>>, 0, NoSrc))
            /\ pred' = Append(pred, [out |-> e.out, k |-> e.res.k, n |-> e.res.n, req |-> e.res.req, avail |-> e.res.avail,
                                     v |-> e.res.v, vv |-> e.res.vv, tree |-> e.tree])

DStart ==
  /\ phase = "build" /\ Len(stack) = 1
  /\ phase' = "ops" /\ tree0' = stack[1] /\ tree' = stack[1] /\ dt' = stack[1]
  /\ UNCHANGED <<stack, ops, nleaf, badlaws, nops, pred>>

DOp ==
  /\ phase = "ops" /\ nops < MaxOps /\ badlaws = {}
  /\ LET len == Len(Flat(Proj(dt))) IN
     \/ /\ "remaining" \in OpNames
        /\ Check(Ev("remaining", "", 0, "ok", [Res0 EXCEPT !.n = DRem(dt)], dt)) /\ dt' = dt
     \/ /\ "chunk" \in OpNames
        /\ Check(Ev("chunk", "", 0, "ok", [Res0 EXCEPT !.v = DChunk(dt)], dt)) /\ dt' = dt
     \/ \E n \in {0, 1, len - 1, len, len + 1} :
          /\ n >= 0 /\ "advance" \in OpNames
          /\ LET r == DAdv(dt, n) IN
             /\ Check(Ev("advance", "", n, IF r.ok THEN "ok" ELSE "panic", Res0, r.t))
             /\ dt' = r.t
     \/ \E k \in {0, 1, 2, 3, 17} :
          /\ "chunks_vectored" \in OpNames
          /\ LET ss == DVec(dt, k) IN
             Check(Ev("chunks_vectored", "", k, "ok", [Res0 EXCEPT !.n = Len(ss), !.vv = ss], dt)) /\ dt' = dt
     \/ \E n \in {0, 1, len - 1, len, len + 1} :
          /\ n >= 0 /\ "copy_to_bytes" \in OpNames
          /\ LET r == DCtb(dt, n) IN
             /\ Check(Ev("copy_to_bytes", "", n, IF r.ok THEN "ok" ELSE "panic", [Res0 EXCEPT !.v = r.v], r.t))
             /\ dt' = r.t
     \/ \E n \in {0, 1, len, len + 1} :
          /\ n >= 0 /\ "try_copy_to_slice" \in OpNames
          /\ IF DRem(dt) < n
             THEN Check(Ev("try_copy_to_slice", "", n, "ok", [Res0 EXCEPT !.k = "err", !.req = n, !.avail = DRem(dt)], dt)) /\ dt' = dt
             ELSE LET r == CopyLoop(dt, n, <<>>) IN
                  /\ Check(Ev("try_copy_to_slice", "", n, IF r.ok THEN "ok" ELSE "panic", [Res0 EXCEPT !.k = "ok", !.v = r.v], r.t))
                  /\ dt' = r.t
     \/ \E m \in (IF "get" \in OpNames THEN GetNames ELSE {}), n \in Ns :
          /\ (~Methods[m].var => n = 0)
          /\ LET r == DGet(dt, m, n) IN
             /\ Check(Ev("get", m, n, r.out, r.res, r.t))
             /\ dt' = r.t
  /\ nops' = nops + 1
  /\ UNCHANGED <<stack, phase, tree0, tree, nleaf>>

DInit == Init /\ dt = [k |-> "none"] /\ badlaws = {} /\ nops = 0 /\ pred = <<>>
DNext == \/ (PushLeaf /\ UNCHANGED <<dt, badlaws, nops, pred>>)
         \/ (MkChain /\ UNCHANGED <<dt, badlaws, nops, pred>>)
         \/ (MkLimit /\ UNCHANGED <<dt, badlaws, nops, pred>>)
         \/ (MkWrap /\ UNCHANGED <<dt, badlaws, nops, pred>>)
         \/ DStart \/ DOp

\* INVARIANT that never fails: prints finished programs with the design's predictions
DEmit == (Emit /\ phase = "ops" /\ nops = MaxOps /\ RandomElement(1..SampleK) = 1) =>
           PrintT(<<"REPLAY", ToJson([side |-> "buf", tree |-> tree0, ops |-> ops, pred |-> pred])>>)

LawsAccept == badlaws = {}
=============================================================================

---- MODULE MCAtomics_t ----
EXTENDS Atomics
MCOrd == [inc |-> "Relaxed", dec |-> "Release", fence |-> "Acquire", tovec_s |-> "AcqRel", tovec_f |-> "Relaxed", uniq |-> "Acquire",
          prom_load |-> "Acquire", cas_s |-> "AcqRel", cas_f |-> "Acquire", m_inc |-> "Relaxed", m_dec |-> "Release", m_fence |-> "Acquire", m_uniq |-> "Acquire"]
MCProgs == IF Repr = "prom"
           THEN { <<a, b>> : a \in {<<"clone_s","read","drop">>, <<"clone_s","clone_s","drop","drop">>, <<"clone_s","to_vec","drop">>},
                             b \in {<<"clone_s","read","drop">>, <<"clone_s","to_mut","drop">>, <<"clone_s","clone","drop","drop">>} }
           ELSE { <<a, b>> : a \in {<<"read","drop">>, <<"clone","drop","drop">>, <<"to_vec","drop">>, <<"to_mut","drop">>},
                             b \in {<<"read","drop">>, <<"to_vec","drop">>, <<"to_mut","drop">>, <<"clone","read","drop","drop">>} }
====

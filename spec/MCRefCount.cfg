SPECIFICATION Spec
CONSTANT Handle = {h1, h2, h3, h4}
INVARIANTS Inv Safe
CHECK_DEADLOCK FALSE

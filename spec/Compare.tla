------------------------------- MODULE Compare -------------------------------
(***************************************************************************)
(* C14: equality, ordering and hashing of Bytes / BytesMut depend on the   *)
(* bytes only.  The specification is the lexicographic order on byte       *)
(* sequences; every recorded result of every comparison impl (both         *)
(* operand orders) must agree with it.                                     *)
(***************************************************************************)
EXTENDS Integers, Sequences, FiniteSets, TLC

RECURSIVE Lex(_, _)
\* -1: l < r, 0: equal, 1: l > r  (lexicographic; a proper prefix is smaller)
Lex(l, r) ==
  IF l = <<>> THEN (IF r = <<>> THEN 0 ELSE -1)
  ELSE IF r = <<>> THEN 1
  ELSE IF Head(l) < Head(r) THEN -1
  ELSE IF Head(l) > Head(r) THEN 1
  ELSE Lex(Tail(l), Tail(r))

\* one result record of one impl evaluated on (l, r); pc = 8 means "no PartialOrd impl"
ImplOk(x, c) ==
  /\ x.eq = (c = 0)
  /\ x.ne = (c # 0)
  /\ (x.pc # 8 =>
        /\ x.pc = c
        /\ x.lt = (c = -1)
        /\ x.le = (c <= 0)
        /\ x.gt = (c = 1)
        /\ x.ge = (c >= 0))

CmpLaws(e) ==
  LET c == Lex(e.l, e.r)
      bad == {e.res[i].impl : i \in {j \in DOMAIN e.res : ~ImplOk(e.res[j], c)}}
  IN {<<"C14", "cmp_as_slices:" \o i>> : i \in bad}
     \cup (IF e.ordb # c THEN {<<"C14", "cmp_as_slices:Ord for Bytes">>} ELSE {})
     \cup (IF e.ordm # c THEN {<<"C14", "cmp_as_slices:Ord for BytesMut">>} ELSE {})
     \cup (IF ~e.hb \/ ~e.hm \/ ~e.bb \/ ~e.bm THEN {<<"C14", "hash_as_slice">>} ELSE {})

BadImpls(e) == LET c == Lex(e.l, e.r) IN {e.res[i].impl : i \in {j \in DOMAIN e.res : ~ImplOk(e.res[j], c)}}
=============================================================================

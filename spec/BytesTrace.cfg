CONSTANTS
  MAXW = 1073741823
  IMAXW = 536870911
  ARENA = 256
INIT Init
NEXT Next
CHECK_DEADLOCK FALSE

------------------------------ MODULE MCRefine ------------------------------
(***************************************************************************)
(* Refinement: the design model BytesImpl (bound to the code by replay)    *)
(* implements the unbounded release protocol RefCount buffer by buffer.    *)
(* For every byte buffer a of BytesImpl's memory the abstraction below     *)
(* gives RefCount's variables; TLC checks that every BytesImpl transition  *)
(* is, for every buffer, a RefCount step or leaves the abstraction         *)
(* unchanged (property Refines).                                           *)
(***************************************************************************)
EXTENDS BytesImpl

IsBuf(M, a) == a \in DOMAIN M /\ M[a].kind \in {"buf", "env"}
\* the live control block(s) managing buffer a
CtlOf(M, a) == {c \in DOMAIN M : M[c].kind \in {"ctlB", "ctlM", "own"} /\ M[c].live /\ M[c].buf = a
                                  /\ (M[c].kind = "ctlM" => M[c].cap > 0)}

APhase(M, a) == IF ~IsBuf(M, a) THEN "none" ELSE IF ~M[a].live THEN "freed" ELSE IF CtlOf(M, a) # {} THEN "arc" ELSE "vec"
ARc(M, a) == IF APhase(M, a) = "arc" THEN M[CHOOSE c \in CtlOf(M, a) : TRUE].rc ELSE 0
ALive(H, a) == {h \in DOMAIN H : H[h].a = a /\ H[h].vt # "static"}   \* an empty static handle may point into a buffer without owning it
AFrees(M, a) == IF APhase(M, a) = "freed" THEN 1 ELSE 0

HandleIds == 1..(2 * Depth + 3)

RC(a) == INSTANCE RefCount WITH Handle <- HandleIds, phase <- APhase(mem, a), rc <- ARc(mem, a),
                                live <- ALive(hd, a), frees <- AFrees(mem, a)

RStep(a) ==
  \/ \E h \in HandleIds : \/ RC(a)!CreateVec(h) \/ RC(a)!Promote(h) \/ RC(a)!Acquire(h)
                          \/ RC(a)!Release(h) \/ RC(a)!DropVec(h)
  \/ RC(a)!CreateArc(ALive(hd', a))
  \/ RC(a)!Ephemeral
  \/ \E h, g \in HandleIds : RC(a)!Transfer(h, g) \/ RC(a)!Demote(h, g) \/ RC(a)!PromoteSelf(h, g) \/ RC(a)!ReleaseTwo(h, g)
  \/ UNCHANGED RC(a)!vars

Refines == [][\A a \in 1..MaxAllocs : RStep(a)]_vars

OneCtl == \A a \in DOMAIN mem : IsBuf(mem, a) => Cardinality(CtlOf(mem, a)) <= 1
AbsInv == \A a \in 1..MaxAllocs : RC(a)!Inv
=============================================================================

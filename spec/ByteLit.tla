------------------------------- MODULE ByteLit -------------------------------
(***************************************************************************)
(* C15: the Debug output of Bytes / BytesMut is a syntactically valid Rust *)
(* byte-string literal that decodes to exactly the contents; {:x} / {:X}   *)
(* print exactly two lower / upper case hex digits per byte; serde round   *)
(* trips are the identity.  The specification is the DECODER of the        *)
(* literal grammar (Rust reference, byte string literals: b" ... ", byte   *)
(* escapes \n \r \t \\ \0 \' \" \xHH, any other ASCII character except     *)
(* ", \ and isolated CR stands for itself), so every valid escaping is     *)
(* accepted.  Inputs are sequences of character codes.                     *)
(***************************************************************************)
EXTENDS Integers, Sequences, FiniteSets, TLC

FAIL == <<-1>>
IsFail(s) == \E i \in DOMAIN s : s[i] < 0

HexVal(c) == IF c >= 48 /\ c <= 57 THEN c - 48                  \* 0-9
             ELSE IF c >= 97 /\ c <= 102 THEN c - 87            \* a-f
             ELSE IF c >= 65 /\ c <= 70 THEN c - 55             \* A-F
             ELSE -1

RECURSIVE Body(_)
Body(s) ==
  IF s = <<>> THEN <<>>
  ELSE IF s[1] = 92 THEN                                        \* backslash
         IF Len(s) < 2 THEN FAIL
         ELSE LET c == s[2] rest2 == SubSeq(s, 3, Len(s)) IN
              CASE c = 110 -> <<10>> \o Body(rest2)              \* \n
                [] c = 114 -> <<13>> \o Body(rest2)              \* \r
                [] c = 116 -> <<9>> \o Body(rest2)               \* \t
                [] c = 92 -> <<92>> \o Body(rest2)               \* \\
                [] c = 48 -> <<0>> \o Body(rest2)                \* \0
                [] c = 39 -> <<39>> \o Body(rest2)               \* \'
                [] c = 34 -> <<34>> \o Body(rest2)               \* \"
                [] c = 120 ->                                    \* \xHH
                     IF Len(s) < 4 \/ HexVal(s[3]) < 0 \/ HexVal(s[4]) < 0 THEN FAIL
                     ELSE <<16 * HexVal(s[3]) + HexVal(s[4])>> \o Body(SubSeq(s, 5, Len(s)))
                [] OTHER -> FAIL
  ELSE IF s[1] = 34 \/ s[1] = 13 \/ s[1] > 127 \/ s[1] < 0 THEN FAIL   \* bare quote, CR, non-ASCII
  ELSE <<s[1]>> \o Body(Tail(s))

DecodeLit(s) ==
  IF Len(s) < 3 \/ s[1] # 98 \/ s[2] # 34 \/ s[Len(s)] # 34 THEN FAIL
  ELSE Body(SubSeq(s, 3, Len(s) - 1))

LowerDigit(n) == IF n < 10 THEN 48 + n ELSE 87 + n
UpperDigit(n) == IF n < 10 THEN 48 + n ELSE 55 + n
RECURSIVE HexOf(_, _)
HexOf(d, up) == IF d = <<>> THEN <<>>
                ELSE (IF up THEN <<UpperDigit(Head(d) \div 16), UpperDigit(Head(d) % 16)>>
                      ELSE <<LowerDigit(Head(d) \div 16), LowerDigit(Head(d) % 16)>>) \o HexOf(Tail(d), up)

FmtLaws(e) ==
  LET dec == DecodeLit(e.dbg) IN
  (IF IsFail(dec) \/ dec # e.d THEN {<<"C15", "literal_decodes">>} ELSE {})
  \cup (IF e.lx # HexOf(e.d, FALSE) \/ e.ux # HexOf(e.d, TRUE) THEN {<<"C15", "hex_exact">>} ELSE {})

SerdeLaws(e) == IF e.ok /\ e.out = e.d THEN {} ELSE {<<"C15", "serde_identity">>}
=============================================================================

------------------------------ MODULE BytesTrace ------------------------------
(***************************************************************************)
(* Trace validator (binding V): runs the law monitor of BytesLaws over an  *)
(* ndjson trace recorded from the real code.  Deterministic: one state per *)
(* event.  Violations are printed as LAWVIOL lines (first violating event  *)
(* of each program), never as TLC errors, so the whole trace is always     *)
(* examined.  The driver requires the final DONE line.                     *)
(***************************************************************************)
EXTENDS BytesLaws, Json, IOUtils

Rec == ndJsonDeserialize(IOEnv.TRACE)

VARIABLES l, S, tainted, pid, nviol, cnt
vars == <<l, S, tainted, pid, nviol, cnt>>

Bump(c, ks) == [k \in DOMAIN c \cup ks |-> (IF k \in DOMAIN c THEN c[k] ELSE 0) + (IF k \in ks THEN 1 ELSE 0)]

Init == /\ l = 1 /\ S = InitState /\ tainted = {} /\ pid = -1 /\ nviol = 0
        /\ cnt = [x \in {} |-> 0]

Next ==
  /\ l <= Len(Rec)
  /\ LET e == Rec[l]
         R == LawStep(S, e)
         newV == {v \in R.V : v[1] \notin tainted}     \* first violation per property and program
         report == newV # {}
     IN /\ S' = R.S
        /\ pid' = IF e.op = "reset" THEN e.pid ELSE pid
        /\ tainted' = IF e.op = "reset" THEN {} ELSE (tainted \cup {v[1] : v \in R.V})
        /\ nviol' = nviol + (IF report THEN 1 ELSE 0)
        /\ cnt' = Bump(cnt, Exercised(S, e))
        /\ (report => PrintT(<<"LAWVIOL", pid, e.i, e.op, newV>>))
        /\ (l = Len(Rec) => PrintT(<<"DONE", Len(Rec), nviol', cnt'>>))
  /\ l' = l + 1

Spec == Init /\ [][Next]_vars
=============================================================================

------------------------------ MODULE BytesImpl ------------------------------
(***************************************************************************)
(* Design model of src/bytes.rs + src/bytes_mut.rs (DESIGN.md 4.2,         *)
(* Appendix E).  Implementation-shaped: one branch per code path, the      *)
(* variables are the struct fields, machine arithmetic is W-bit with a     *)
(* debug (overflow => panic) and a release (wrap) profile.                 *)
(*                                                                         *)
(*  - TLC checks exhaustively (small constants) that every transition is   *)
(*    accepted by the law monitor of BytesLaws (invariant LawsAccept), and *)
(*    the design invariants RcIsHandleCount, NoOverflow, TypeOK.           *)
(*  - It is the generator (binding G): every behaviour's program is        *)
(*    printed as one JSON line (symbolic arguments) and replayed on the    *)
(*    real code; the projection predicted by the model is printed with it  *)
(*    (binding D).                                                         *)
(***************************************************************************)
EXTENDS BytesLaws, SequencesExt, Json

CONSTANTS
  W,            \* word size of the model (MAXW = 2^W-1, IMAXW = 2^(W-1)-1 must agree)
  Profile,      \* "debug" | "release"
  Parities,     \* allocator parities explored, subset of {0,1}
  MaxAllocs,    \* bound on allocation ids
  MaxHandles,   \* bound on simultaneously live handles
  MaxLen,       \* bound on constructor lengths
  Depth,        \* bound on program length
  OpSet,        \* operations enabled in this configuration
  EmitPrograms, \* print REPLAY lines (programs for binding G)
  SampleK,      \* emit every transition's program with probability 1/SampleK
  MaxBuf,       \* largest byte buffer the model allocates; larger in-contract requests are
                \* resource exhaustion (the allocator would fail), which no property covers
  OrigMinW,     \* MIN_ORIGINAL_CAPACITY_WIDTH (10 in the code; 2 in scaled configurations)
  OrigMaxW,     \* MAX_ORIGINAL_CAPACITY_WIDTH (17 in the code; 4 scaled)
  Mutation      \* "none", or the name of a seeded model mutant (self-test of the laws)

VARIABLES mem, hd, na, nh, par, lawS, bad, ovf, depth, hist, pred, own

vars == <<mem, hd, na, nh, par, lawS, bad, ovf, depth, hist, pred, own>>
View == <<mem, hd, na, nh, par, lawS, bad, ovf, depth, own>>

Pow2(n) == 2 ^ n
WMOD == Pow2(W)

(***************************************************************************)
(* Memory: one table for byte buffers and control blocks.                  *)
(*   kind "buf"  : bytes                                                   *)
(*   kind "ctlB" : bytes.rs Shared   {buf, cap, rc}          24/8          *)
(*   kind "ctlM" : bytes_mut.rs Shared {vec(buf,vlen,cap), orig, rc} 40/8  *)
(*   kind "own"  : Owned<T> box {rc} 56/8, buf = owner's data block        *)
(*   kind "env"  : the owner's own data (allocated by the environment)     *)
(***************************************************************************)
Blk(kind, size, align, p, bytes, rc, buf, cap, vlen, orig) ==
  [kind |-> kind, size |-> size, align |-> align, live |-> TRUE, par |-> p, bytes |-> bytes,
   rc |-> rc, buf |-> buf, cap |-> cap, vlen |-> vlen, orig |-> orig]

\* The "machine" threaded through one operation
Mach == [mem |-> mem, hd |-> hd, na |-> na, nh |-> nh, evs |-> <<>>, ovf |-> FALSE, own |-> own]

AllocEv(id, size, align, p, org) == [e |-> "alloc", id |-> id, size |-> size, align |-> align, par |-> p, org |-> org]
FreeEv(id, size, align, rsize, ralign, org) ==
  [e |-> "free", id |-> id, size |-> size, align |-> align, rsize |-> rsize, ralign |-> ralign, org |-> org]

AllocBuf(M, n, bytes) ==
  \* a byte buffer of n > 0 bytes (callers never allocate 0 bytes: Vec does not)
  [M EXCEPT !.mem = (M.na :> Blk("buf", n, 1, par, bytes, 0, 0, 0, 0, 0)) @@ @,
            !.na = @ + 1,
            !.evs = Append(@, AllocEv(M.na, n, 1, par, 1))]

AllocCtl(M, kind, size, rc, buf, cap, vlen, orig) ==
  [M EXCEPT !.mem = (M.na :> Blk(kind, size, 8, 0, <<>>, rc, buf, cap, vlen, orig)) @@ @,
            !.na = @ + 1,
            !.evs = Append(@, AllocEv(M.na, size, 8, 0, 1))]

Free(M, a, n, al) ==
  IF a \in DOMAIN M.mem /\ M.mem[a].live
  THEN [M EXCEPT !.mem[a].live = FALSE,
                 !.mem[a].bytes = [i \in DOMAIN @ |-> 221],
                 !.evs = Append(@, FreeEv(a, n, al, M.mem[a].size, M.mem[a].align, IF M.mem[a].kind = "env" THEN 2 ELSE 1))]
  ELSE [M EXCEPT !.evs = Append(@, [e |-> "bad_free", id |-> a, size |-> n, align |-> al, why |-> 2])]

Pad(s, n) == s \o [i \in 1..(n - Len(s)) |-> 0]     \* uninitialised tail of a buffer

\* read len bytes at offset off of block a through the modelled memory (221 = poison)
Rd(M, a, off, len) ==
  IF a = -1 THEN [i \in 1..len |-> ((off + i - 1) % 100) + 1]
  ELSE IF a \in DOMAIN M.mem
       THEN [i \in 1..len |-> IF off + i <= Len(M.mem[a].bytes) /\ off + i >= 1 THEN M.mem[a].bytes[off + i] ELSE 221]
       ELSE [i \in 1..len |-> 221]

\* write bytes s at offset off of block a (silently dropped outside the block: the value
\* law then sees the difference)
Wr(M, a, off, s) ==
  IF a \in DOMAIN M.mem
  THEN [M EXCEPT !.mem[a].bytes = [i \in DOMAIN @ |-> IF i > off /\ i <= off + Len(s) THEN s[i - off] ELSE @[i]]]
  ELSE M

(***************************************************************************)
(* Reference counting                                                      *)
(***************************************************************************)
RelB(M, c) ==   \* bytes.rs release_shared
  IF M.mem[c].rc = 1
  THEN Free(Free([M EXCEPT !.mem[c].rc = 0], M.mem[c].buf, M.mem[c].cap, 1), c, 24, 8)
  ELSE [M EXCEPT !.mem[c].rc = @ - 1]

RelM(M, c) ==   \* bytes_mut.rs release_shared: drops Box<Shared>, i.e. its Vec
  IF M.mem[c].rc = 1
  THEN LET M1 == [M EXCEPT !.mem[c].rc = 0]
           M2 == IF M.mem[c].cap > 0 THEN Free(M1, M.mem[c].buf, M.mem[c].cap, 1) ELSE M1
       IN Free(M2, c, 40, 8)
  ELSE [M EXCEPT !.mem[c].rc = @ - 1]

RelO(M, c) ==   \* owned_drop_impl: runs the owner's Drop, frees the box
  IF M.mem[c].rc = 1
  THEN LET k == M.mem[c].cap
           M1 == [M EXCEPT !.mem[c].rc = 0, !.own[k + 1].drops = @ + 1]
       IN Free(Free(M1, M.mem[c].buf, M.mem[M.mem[c].buf].size, 1), c, 56, 8)
  ELSE [M EXCEPT !.mem[c].rc = @ - 1]

Inc(M, c) == [M EXCEPT !.mem[c].rc = @ + 1]

(***************************************************************************)
(* Handles                                                                 *)
(***************************************************************************)
HB(vt, kvec, c, a, off, len) == [ty |-> "B", vt |-> vt, kvec |-> kvec, c |-> c, a |-> a, off |-> off, len |-> len, cap |-> len, orig |-> 0]
HM(kind, c, a, off, len, cap, orig) == [ty |-> "M", vt |-> kind, kvec |-> FALSE, c |-> c, a |-> a, off |-> off, len |-> len, cap |-> cap, orig |-> orig]
HV(a, len, cap) == [ty |-> "V", vt |-> "vec", kvec |-> FALSE, c |-> 0, a |-> a, off |-> 0, len |-> len, cap |-> cap, orig |-> 0]
EmptyB == HB("static", FALSE, 0, -100, 0, 0)
StaticEmptyAt(a, off) == HB("static", FALSE, 0, a, off, 0)

Put(M, h) == [M EXCEPT !.hd = (M.nh :> h) @@ @, !.nh = @ + 1]
Set(M, id, h) == [M EXCEPT !.hd[id] = h]
Ins(M, id, h) == [M EXCEPT !.hd = (id :> h) @@ @]
Del(M, id) == [M EXCEPT !.hd = [x \in DOMAIN @ \ {id} |-> @[x]]]

\* original_capacity_to_repr / original_capacity_from_repr
RECURSIVE Bits(_)
Bits(n) == IF n = 0 THEN 0 ELSE 1 + Bits(n \div 2)
OrigRepr(cap) == Min2(Bits(cap \div Pow2(OrigMinW)), OrigMaxW - OrigMinW)
OrigCap(r) == IF r = 0 THEN 0 ELSE Pow2(r + OrigMinW - 1)

(***************************************************************************)
(* Bytes vtables                                                           *)
(***************************************************************************)
\* clone through the vtable: returns <<M', handle record of the clone>>
CloneB(M, id) ==
  LET b == M.hd[id] IN
  CASE b.vt = "static" -> <<M, b>>
    [] b.vt = "owned" -> <<Inc(M, b.c), b>>
    [] b.vt = "prom" /\ b.kvec ->
         \* shallow_clone_vec: Shared{buf, cap = (ptr - buf) + len, rc = 2}, CAS into data
         LET M1 == AllocCtl(M, "ctlB", 24, 2, b.a, b.off + b.len, 0, 0)
             c == M.na
         IN <<Set(M1, id, [b EXCEPT !.kvec = FALSE, !.c = c]), HB("shared", FALSE, c, b.a, b.off, b.len)>>
    [] b.vt = "prom" -> <<Inc(M, b.c), HB("shared", FALSE, b.c, b.a, b.off, b.len)>>
    [] b.vt = "shared" -> <<Inc(M, b.c), b>>
    [] b.vt = "sharedM" -> <<Inc(M, b.c), b>>

DropB(M, b) ==
  CASE b.vt = "static" -> M
    [] b.vt = "owned" -> RelO(M, b.c)
    [] b.vt = "prom" /\ b.kvec -> Free(M, b.a, b.off + b.len, 1)      \* free_boxed_slice
    [] b.vt \in {"prom", "shared"} -> RelB(M, b.c)
    [] b.vt = "sharedM" -> RelM(M, b.c)

DropM(M, m) ==
  IF m.vt = "vec" THEN (IF m.cap + m.off > 0 THEN Free(M, m.a, m.cap + m.off, 1) ELSE M)
  ELSE RelM(M, m.c)

DropV(M, v) == IF v.cap > 0 THEN Free(M, v.a, v.cap, 1) ELSE M

DropH(M, x) == IF x.ty = "B" THEN DropB(M, x) ELSE IF x.ty = "M" THEN DropM(M, x) ELSE DropV(M, x)

IsUnique(M, b) ==
  CASE b.vt \in {"static", "owned"} -> FALSE
    [] b.vt = "prom" /\ b.kvec -> TRUE
    [] OTHER -> M.mem[b.c].rc = 1

\* slice.to_vec(): exact-capacity copy (no allocation for an empty slice)
CopyOut(M, b) ==
  IF b.len = 0 THEN <<M, HV(-100, 0, 0)>>
  ELSE <<AllocBuf(M, b.len, Rd(M, b.a, b.off, b.len)), HV(M.na, b.len, b.len)>>

\* memmove of the view to the start of its buffer
MoveFront(M, a, off, len) == Wr(M, a, 0, Rd(M, a, off, len))

IntoVecB(M, b) ==
  CASE b.vt = "static" -> CopyOut(M, b)
    [] b.vt = "owned" -> LET r == CopyOut(M, b) IN <<RelO(r[1], b.c), r[2]>>
    [] b.vt = "prom" /\ b.kvec -> <<MoveFront(M, b.a, b.off, b.len), HV(b.a, b.len, b.off + b.len)>>
    [] b.vt \in {"prom", "shared"} ->
         IF M.mem[b.c].rc = 1     \* compare_exchange(1, 0)
         THEN LET buf == M.mem[b.c].buf cap == M.mem[b.c].cap
                  M1 == Free([M EXCEPT !.mem[b.c].rc = 0], b.c, 24, 8)
              IN <<MoveFront(M1, buf, b.off, b.len), HV(buf, b.len, cap)>>
         ELSE LET r == CopyOut(M, b) IN <<RelB(r[1], b.c), r[2]>>
    [] b.vt = "sharedM" ->
         IF M.mem[b.c].rc = 1
         THEN LET buf == M.mem[b.c].buf cap == M.mem[b.c].cap
                  M1 == RelM([M EXCEPT !.mem[b.c].cap = 0, !.mem[b.c].vlen = 0], b.c)   \* vec taken: only the box is freed
              IN <<MoveFront(M1, buf, b.off, b.len), HV(IF cap = 0 THEN -100 ELSE buf, b.len, cap)>>
         ELSE LET r == CopyOut(M, b) IN <<RelM(r[1], b.c), r[2]>>

FromVecM(v) == HM("vec", 0, v.a, 0, v.len, v.cap, OrigRepr(v.cap))      \* BytesMut::from_vec

IntoMutB(M, b) ==
  CASE b.vt = "static" -> LET r == CopyOut(M, b) IN <<r[1], FromVecM(r[2])>>
    [] b.vt = "owned" -> LET r == CopyOut(M, b) IN <<RelO(r[1], b.c), FromVecM(r[2])>>
    [] b.vt = "prom" /\ b.kvec ->
         \* Vec(buf, cap, cap) with cap = off + len; from_vec; advance_unchecked(off)
         <<M, HM("vec", 0, b.a, b.off, b.len, b.len, OrigRepr(b.off + b.len))>>
    [] b.vt \in {"prom", "shared"} ->
         IF M.mem[b.c].rc = 1
         THEN LET buf == M.mem[b.c].buf cap == M.mem[b.c].cap
                  M1 == Free([M EXCEPT !.mem[b.c].rc = 0], b.c, 24, 8)
              IN <<M1, HM("vec", 0, buf, b.off, b.len, cap - b.off, OrigRepr(cap))>>
         ELSE LET r == CopyOut(M, b) IN <<RelB(r[1], b.c), FromVecM(r[2])>>
    [] b.vt = "sharedM" ->
         IF M.mem[b.c].rc = 1
         THEN <<M, HM("arc", b.c, b.a, b.off, b.len, M.mem[b.c].cap - b.off, M.mem[b.c].orig)>>
         ELSE LET r == CopyOut(M, b) IN <<RelM(r[1], b.c), FromVecM(r[2])>>

\* Bytes::from(Vec<u8>) for a Vec occupying block a (len, cap)
FromVecB(M, a, len, cap) ==
  IF len = cap
  THEN (IF cap = 0 THEN <<M, EmptyB>> ELSE <<M, HB("prom", TRUE, 0, a, 0, len)>>)
  ELSE LET M1 == AllocCtl(M, "ctlB", 24, 1, a, cap, 0, 0) IN <<M1, HB("shared", FALSE, M.na, a, 0, len)>>

(***************************************************************************)
(* Event construction (projection function, Appendix A.1)                  *)
(***************************************************************************)
ObsOf(M, id) ==
  LET x == M.hd[id] IN
  [h |-> id, ty |-> x.ty,
   a |-> IF x.a \in DOMAIN M.mem /\ M.mem[x.a].kind = "env" THEN -2 - M.mem[x.a].cap ELSE x.a,
   off |-> x.off, a2 |-> 0, off2 |-> 0,
   ae |-> IF x.a \in DOMAIN M.mem /\ M.mem[x.a].kind = "env" THEN -2 - M.mem[x.a].cap ELSE x.a,
   len |-> x.len, cap |-> x.cap,
   u |-> IF x.ty = "B" THEN IsUnique(M, x) ELSE FALSE,
   d |-> IF x.a = -100 THEN [i \in 1..x.len |-> 221] ELSE Rd(M, x.a, x.off, x.len)]

OwnObs(M) == [k \in 1..Len(M.own) |-> [o |-> k - 1, size |-> M.own[k].size, asref |-> M.own[k].asref, drops |-> M.own[k].drops]]

Event(M, op, h, x, y, mode, o, val, data, k, new, v) ==
  [i |-> depth + 1, op |-> op, h |-> h, ty |-> IF h \in DOMAIN hd THEN hd[h].ty ELSE "-",
   args |-> [x |-> x, y |-> y, mode |-> mode, o |-> o, val |-> val, data |-> data],
   out |-> [k |-> k, new |-> new, v |-> v],
   mem |-> M.evs,
   obs |-> SetToSeq({ObsOf(M, id) : id \in DOMAIN M.hd}),
   own |-> OwnObs(M)]

(***************************************************************************)
(* Symbolic arguments: the class is evaluated in the model's state here    *)
(* and in the real state by the harness.                                   *)
(***************************************************************************)
Arg(r, d) == [r |-> r, d |-> d]
Abs(n) == [r |-> "abs", d |-> n]

AllocSize(x) == IF x.a \in DOMAIN mem THEN mem[x.a].size ELSE x.len

Clamp(n) == IF n < 0 THEN 0 ELSE IF n > MAXW THEN MAXW ELSE n
EvalArg(x, s) ==
  Clamp(CASE s.r = "abs" -> s.d
          [] s.r = "len" -> x.len + s.d
          [] s.r = "cap" -> x.cap + s.d
          [] s.r = "spare" -> x.cap - x.len + s.d
          [] s.r = "asz" -> AllocSize(x) + s.d
          [] s.r = "aszlen" -> AllocSize(x) - x.len + s.d
          [] s.r = "max" -> MAXW + s.d
          [] s.r = "imax" -> IMAXW + s.d
          [] s.r = "maxlen" -> MAXW - x.len + s.d
          [] s.r = "imaxlen" -> IMAXW - x.len + s.d)

IdxArgs == {Abs(0), Abs(1), Arg("len", -1), Arg("len", 0), Arg("len", 1), Arg("max", 0)}
CapArgs == {Abs(0), Abs(1), Arg("len", 0), Arg("cap", 0), Arg("cap", 1), Arg("max", 0)}
ResArgs == {Abs(0), Abs(1), Arg("spare", 0), Arg("spare", 1), Arg("aszlen", 0), Arg("asz", 0), Arg("asz", 1),
            Arg("imaxlen", 1), Arg("maxlen", -1), Arg("maxlen", 0), Arg("maxlen", 1), Arg("max", 0)}

(***************************************************************************)
(* One step: run the design transition, build the event, feed the laws.    *)
(***************************************************************************)
Commit(M, ev, prog) ==
  LET R == LawStep(lawS, ev) IN
  /\ mem' = M.mem /\ hd' = M.hd /\ na' = M.na /\ nh' = M.nh /\ own' = M.own
  /\ lawS' = R.S
  /\ bad' = bad \cup R.V
  /\ ovf' = (ovf \/ M.ovf)
  /\ depth' = depth + 1
  /\ hist' = Append(hist, prog)
  /\ pred' = Append(pred, [k |-> ev.out.k, v |-> ev.out.v,
                           obs |-> [j \in DOMAIN ev.obs |-> <<ev.obs[j].h, ev.obs[j].ty, ev.obs[j].len, ev.obs[j].cap, ev.obs[j].off>>]])
  /\ par' = par

\* a call that panics before any state change
PanicStep(op, h, x, y, mode, o, prog) ==
  Commit(Mach, Event(Mach, op, h, x, y, mode, o, 0, <<>>, "panic", <<>>, -9), prog)

Prog(op, h, a, b, mode, o, val) == [op |-> op, h |-> h, a |-> a, b |-> b, mode |-> mode, o |-> o, val |-> val]
Z == Abs(0)

Room(k) == na + k - 1 <= MaxAllocs
HRoom == Cardinality(DOMAIN hd) < MaxHandles
FreshData(n) == [i \in 1..n |-> ((depth * 7 + i - 1) % 100) + 1]

Live(ty) == {h \in DOMAIN hd : hd[h].ty = ty}
En(op) == op \in OpSet /\ depth < Depth /\ bad = {}

(*------------------------- constructors --------------------------------*)
BNew ==
  /\ En("b_new") /\ HRoom
  /\ LET M == Put(Mach, EmptyB) IN
     Commit(M, Event(M, "b_new", 0, 0, 0, 0, 0, 0, <<>>, "ok", <<nh>>, -9), Prog("b_new", 0, Z, Z, 0, 0, 0))

BStatic ==
  /\ En("b_static") /\ HRoom
  /\ \E off \in {3}, n \in {0, MaxLen} :
       LET M == Put(Mach, HB("static", FALSE, 0, -1, off, n))
           d == Rd(Mach, -1, off, n)
       IN Commit(M, Event(M, "b_static", 0, off, n, 0, 0, 0, d, "ok", <<nh>>, -9), Prog("b_static", 0, Abs(off), Abs(n), 0, 0, 0))

BFromVec ==   \* Bytes::from(Vec) with len n and `extra` spare capacity
  /\ En("b_from_vec") /\ HRoom /\ Room(2)
  /\ \E n \in {0, MaxLen}, extra \in {0, 1} :
       LET d == FreshData(n)
           M0 == IF n + extra > 0 THEN AllocBuf(Mach, n + extra, Pad(d, n + extra)) ELSE Mach
           r == FromVecB(M0, na, n, n + extra)
           M == Put(r[1], r[2])
       IN Commit(M, Event(M, "b_from_vec", 0, n, extra, 0, 0, 0, d, "ok", <<nh>>, -9), Prog("b_from_vec", 0, Abs(n), Abs(extra), 0, 0, 0))

BFromOwner ==
  /\ En("b_from_owner") /\ HRoom /\ Room(2) /\ Len(own) < 2
  /\ \E mode \in {0, 1} :
       LET n == MaxLen
           d == FreshData(n)
           k == Len(own)
           \* the environment allocates the owner's data, the crate boxes the owner
           M0 == [Mach EXCEPT !.mem = (na :> Blk("env", n, 1, par, d, 0, 0, k, 0, 0)) @@ @, !.na = @ + 1,
                              !.evs = Append(@, AllocEv(na, n, 1, par, 2)),
                              !.own = Append(@, [size |-> n, asref |-> 1, drops |-> 0])]
           M1 == AllocCtl(M0, "own", 56, 1, na, k, 0, 0)
       IN IF mode = 1
          THEN LET M == RelO(M1, na + 1) IN    \* as_ref panics: Drop of the half-built Bytes
               Commit(M, Event(M, "b_from_owner", 0, n, 0, 1, 0, 0, d, "panic", <<>>, -9), Prog("b_from_owner", 0, Abs(n), Z, 1, 0, 0))
          ELSE LET M == Put(M1, HB("owned", FALSE, na + 1, na, 0, n)) IN
               Commit(M, Event(M, "b_from_owner", 0, n, 0, 0, 0, 0, d, "ok", <<nh>>, -9), Prog("b_from_owner", 0, Abs(n), Z, 0, 0, 0))

MWithCapacity ==
  /\ En("m_with_capacity") /\ HRoom /\ Room(1)
  /\ \E c \in {0, MaxLen + 1} :
       LET M0 == IF c > 0 THEN AllocBuf(Mach, c, Pad(<<>>, c)) ELSE Mach
           M == Put(M0, HM("vec", 0, IF c > 0 THEN na ELSE -100, 0, 0, c, OrigRepr(c)))
       IN Commit(M, Event(M, "m_with_capacity", 0, c, 0, 0, 0, 0, <<>>, "ok", <<nh>>, -9), Prog("m_with_capacity", 0, Abs(c), Z, 0, 0, 0))

MFromSlice ==
  /\ En("m_from_slice") /\ HRoom /\ Room(1)
  /\ \E n \in {MaxLen} :
       LET d == FreshData(n)
           M0 == AllocBuf(Mach, n, d)
           M == Put(M0, HM("vec", 0, na, 0, n, n, OrigRepr(n)))
       IN Commit(M, Event(M, "m_from_slice", 0, n, 0, 0, 0, 0, d, "ok", <<nh>>, -9), Prog("m_from_slice", 0, Abs(n), Z, 0, 0, 0))

(*------------------------- Bytes ----------------------------------------*)
BClone ==
  /\ En("b_clone") /\ HRoom /\ Room(1)
  /\ \E h \in Live("B") :
       LET r == CloneB(Mach, h)
           M == Put(r[1], r[2])
       IN Commit(M, Event(M, "b_clone", h, 0, 0, 0, 0, 0, <<>>, "ok", <<nh>>, -9), Prog("b_clone", h, Z, Z, 0, 0, 0))

\* Clone::clone_from (the default): *self = source.clone() -- the clone is made first, then the
\* old value of self is dropped
BCloneFrom ==
  /\ En("b_clone_from") /\ Room(1)
  /\ \E h \in Live("B"), o \in Live("B") :
       /\ h # o
       /\ LET r == CloneB(Mach, o)
              \* self-test mutant: "two handles that start at the same byte are views of one buffer" --
              \* only the length is copied, no reference is taken (an empty handle made by split_to(0)
              \* holds the address but no reference)
              samep == Mutation = "clone_from_same_ptr" /\ hd[h].a = hd[o].a /\ hd[h].off = hd[o].off
              M == IF samep THEN Set(Mach, h, [hd[h] EXCEPT !.len = hd[o].len])
                   ELSE Ins(DropB(Del(r[1], h), hd[h]), h, r[2])
          IN Commit(M, Event(M, "b_clone_from", h, 0, 0, 0, o, 0, <<>>, "ok", <<>>, -9), Prog("b_clone_from", h, Z, Z, 0, o, 0))

BSlice ==
  /\ En("b_slice") /\ HRoom /\ Room(1)
  /\ \E h \in Live("B"), sa \in {Abs(0), Abs(1), Arg("len", 0), Arg("len", 1)}, sb \in {Abs(1), Arg("len", -1), Arg("len", 0), Arg("len", 1), Arg("max", 0)} :
       LET b == hd[h]
           x == EvalArg(b, sa)
           y == EvalArg(b, sb)
           prog == Prog("b_slice", h, sa, sb, 0, 0, 0)
       IN IF x > y \/ y > b.len THEN PanicStep("b_slice", h, x, y, 0, 0, prog)
          ELSE IF x = y THEN
               LET M == Put(Mach, EmptyB) IN Commit(M, Event(M, "b_slice", h, x, y, 0, 0, 0, <<>>, "ok", <<nh>>, -9), prog)
          ELSE LET r == CloneB(Mach, h)
                   M == Put(r[1], [r[2] EXCEPT !.off = @ + x, !.len = y - x, !.cap = y - x])
               IN Commit(M, Event(M, "b_slice", h, x, y, 0, 0, 0, <<>>, "ok", <<nh>>, -9), prog)

BSplitOff ==
  /\ En("b_split_off") /\ HRoom /\ Room(1)
  /\ \E h \in Live("B"), s \in IdxArgs :
       LET b == hd[h]
           at == EvalArg(b, s)
           prog == Prog("b_split_off", h, s, Z, 0, 0, 0)
           fin(M) == Commit(M, Event(M, "b_split_off", h, at, 0, 0, 0, 0, <<>>, "ok", <<nh>>, -9), prog)
       IN IF at = b.len THEN fin(Put(Mach, StaticEmptyAt(b.a, b.off + at)))
          ELSE IF at = 0 THEN fin(Put(Set(Mach, h, StaticEmptyAt(b.a, b.off)), b))
          ELSE IF at > b.len THEN PanicStep("b_split_off", h, at, 0, 0, 0, prog)
          ELSE LET r == CloneB(Mach, h)
                   M1 == Set(r[1], h, [r[1].hd[h] EXCEPT !.len = at, !.cap = at])
               IN fin(Put(M1, [r[2] EXCEPT !.off = @ + at, !.len = @ - at, !.cap = @ - at]))

BSplitTo ==
  /\ \E op \in {"b_split_to", "b_copy_to_bytes"} :
     /\ En(op) /\ HRoom /\ Room(1)
     /\ \E h \in Live("B"), s \in IdxArgs :
       LET b == hd[h]
           at == EvalArg(b, s)
           prog == Prog(op, h, s, Z, 0, 0, 0)
           fin(M) == Commit(M, Event(M, op, h, at, 0, 0, 0, 0, <<>>, "ok", <<nh>>, -9), prog)
       IN IF at = b.len THEN fin(Put(Set(Mach, h, StaticEmptyAt(b.a, b.off + at)), b))
          ELSE IF at = 0 THEN fin(Put(Mach, StaticEmptyAt(b.a, b.off)))
          ELSE IF at > b.len THEN PanicStep(op, h, at, 0, 0, 0, prog)
          ELSE LET r == CloneB(Mach, h)
                   M1 == Set(r[1], h, [r[1].hd[h] EXCEPT !.off = @ + at, !.len = @ - at, !.cap = @ - at])
               IN fin(Put(M1, [r[2] EXCEPT !.len = at, !.cap = at]))

\* Bytes::truncate(n) with n < len
TruncB(M, h, n) ==
  LET b == M.hd[h] IN
  IF b.vt = "prom"
  THEN \* drop(self.split_off(n))
       IF n = 0 THEN DropB(Set(M, h, StaticEmptyAt(b.a, b.off)), b)
       ELSE LET r == CloneB(M, h)
                M1 == Set(r[1], h, [r[1].hd[h] EXCEPT !.len = n, !.cap = n])
            IN DropB(M1, r[2])
  ELSE Set(M, h, [b EXCEPT !.len = n, !.cap = n])

BTruncate ==
  /\ En("b_truncate") /\ Room(1)
  /\ \E h \in Live("B"), s \in IdxArgs :
       LET b == hd[h]
           n == EvalArg(b, s)
           M == IF n < b.len THEN TruncB(Mach, h, n) ELSE Mach
       IN Commit(M, Event(M, "b_truncate", h, n, 0, 0, 0, 0, <<>>, "ok", <<>>, -9), Prog("b_truncate", h, s, Z, 0, 0, 0))

BClear ==
  /\ En("b_clear") /\ Room(1)
  /\ \E h \in Live("B") :
       LET b == hd[h]
           M == IF 0 < b.len THEN TruncB(Mach, h, 0) ELSE Mach
       IN Commit(M, Event(M, "b_clear", h, 0, 0, 0, 0, 0, <<>>, "ok", <<>>, -9), Prog("b_clear", h, Z, Z, 0, 0, 0))

BAdvance ==
  /\ En("b_advance")
  /\ \E h \in Live("B"), s \in IdxArgs :
       LET b == hd[h]
           n == EvalArg(b, s)
           prog == Prog("b_advance", h, s, Z, 0, 0, 0)
       IN IF n > b.len THEN PanicStep("b_advance", h, n, 0, 0, 0, prog)
          ELSE LET M == Set(Mach, h, [b EXCEPT !.off = @ + n, !.len = @ - n, !.cap = @ - n])
               IN Commit(M, Event(M, "b_advance", h, n, 0, 0, 0, 0, <<>>, "ok", <<>>, -9), prog)

BIntoVec ==
  /\ En("b_into_vec") /\ Room(1)
  /\ \E h \in Live("B") :
       LET r == IntoVecB(Del(Mach, h), hd[h])
           M == Put(r[1], r[2])
       IN Commit(M, Event(M, "b_into_vec", h, 0, 0, 0, 0, 0, <<>>, "ok", <<nh>>, -9), Prog("b_into_vec", h, Z, Z, 0, 0, 0))

BIntoMut ==
  /\ En("b_into_mut") /\ Room(1)
  /\ \E h \in Live("B") :
       LET r == IntoMutB(Del(Mach, h), hd[h])
           M == Put(r[1], r[2])
       IN Commit(M, Event(M, "b_into_mut", h, 0, 0, 0, 0, 0, <<>>, "ok", <<nh>>, -9), Prog("b_into_mut", h, Z, Z, 0, 0, 0))

BTryIntoMut ==
  /\ En("b_try_into_mut") /\ Room(1)
  /\ \E h \in Live("B") :
       LET prog == Prog("b_try_into_mut", h, Z, Z, 0, 0, 0) IN
       IF IsUnique(Mach, hd[h])
       THEN LET r == IntoMutB(Del(Mach, h), hd[h])
                M == Put(r[1], r[2])
            IN Commit(M, Event(M, "b_try_into_mut", h, 0, 0, 0, 0, 0, <<>>, "ok", <<nh>>, 1), prog)
       ELSE Commit(Mach, Event(Mach, "b_try_into_mut", h, 0, 0, 0, 0, 0, <<>>, "ok", <<>>, 0), prog)

DropAny ==
  /\ En("drop")
  /\ \E h \in DOMAIN hd :
       LET M == DropH(Del(Mach, h), hd[h])
       IN Commit(M, Event(M, "drop", h, 0, 0, 0, 0, 0, <<>>, "ok", <<>>, -9), Prog("drop", h, Z, Z, 0, 0, 0))

VIntoBytes ==
  /\ En("v_into_bytes") /\ Room(1)
  /\ \E h \in Live("V") :
       LET v == hd[h]
           r == FromVecB(Del(Mach, h), v.a, v.len, v.cap)
           M == Put(r[1], r[2])
       IN Commit(M, Event(M, "v_into_bytes", h, 0, 0, 0, 0, 0, <<>>, "ok", <<nh>>, -9), Prog("v_into_bytes", h, Z, Z, 0, 0, 0))

(*------------------------- BytesMut -------------------------------------*)
\* shallow_clone: promote (KIND_VEC) or increment; returns the machine with self updated
ShallowCloneM(M, h) ==
  LET m == M.hd[h] IN
  IF m.vt = "arc" THEN Inc(M, m.c)
  ELSE LET M1 == AllocCtl(M, "ctlM", 40, 2, m.a, m.cap + m.off, m.len + m.off, m.orig)
       IN Set(M1, h, [m EXCEPT !.vt = "arc", !.c = M.na])

\* advance_unchecked(count)
AdvM(m, n) == IF n = 0 THEN m ELSE [m EXCEPT !.off = @ + n, !.len = IF @ >= n THEN @ - n ELSE 0, !.cap = @ - n]

MSplitOff ==
  /\ En("m_split_off") /\ HRoom /\ Room(1)
  /\ \E h \in Live("M"), s \in CapArgs :
       LET m == hd[h]
           at == EvalArg(m, s)
           prog == Prog("m_split_off", h, s, Z, 0, 0, 0)
       IN IF at > m.cap THEN PanicStep("m_split_off", h, at, 0, 0, 0, prog)
          ELSE LET M1 == ShallowCloneM(Mach, h)
                   me == M1.hd[h]
                   other == AdvM(me, at)
                   M2 == Set(M1, h, [me EXCEPT !.cap = at, !.len = Min2(me.len, at)])
                   M == Put(M2, other)
               IN Commit(M, Event(M, "m_split_off", h, at, 0, 0, 0, 0, <<>>, "ok", <<nh>>, -9), prog)

MSplitTo ==
  /\ \E op \in {"m_split_to", "m_split"} :
     /\ En(op) /\ HRoom /\ Room(1)
     /\ \E h \in Live("M"), s \in (IF op = "m_split" THEN {Arg("len", 0)} ELSE IdxArgs) :
       LET m == hd[h]
           at == EvalArg(m, s)
           prog == Prog(op, h, IF op = "m_split" THEN Z ELSE s, Z, 0, 0, 0)
       IN IF at > m.len THEN PanicStep(op, h, at, 0, 0, 0, prog)
          ELSE LET M1 == ShallowCloneM(Mach, h)
                   me == M1.hd[h]
                   M2 == Set(M1, h, AdvM(me, at))
                   M == Put(M2, [me EXCEPT !.cap = at, !.len = at])
               IN Commit(M, Event(M, op, h, IF op = "m_split" THEN 0 ELSE at, 0, 0, 0, 0, <<>>, "ok", <<nh>>, -9), prog)

MTruncate ==
  /\ En("m_truncate")
  /\ \E h \in Live("M"), s \in IdxArgs :
       LET m == hd[h]
           n == EvalArg(m, s)
           M == IF n <= m.len THEN Set(Mach, h, [m EXCEPT !.len = n]) ELSE Mach
       IN Commit(M, Event(M, "m_truncate", h, n, 0, 0, 0, 0, <<>>, "ok", <<>>, -9), Prog("m_truncate", h, s, Z, 0, 0, 0))

MAdvance ==
  /\ En("m_advance")
  /\ \E h \in Live("M"), s \in IdxArgs :
       LET m == hd[h]
           n == EvalArg(m, s)
           prog == Prog("m_advance", h, s, Z, 0, 0, 0)
       IN IF n > m.len THEN PanicStep("m_advance", h, n, 0, 0, 0, prog)
          ELSE LET M == Set(Mach, h, AdvM(m, n))
               IN Commit(M, Event(M, "m_advance", h, n, 0, 0, 0, 0, <<>>, "ok", <<>>, -9), prog)

\* W-bit addition as the code performs it: checked => Overflow, unchecked => wrap/flag
AddW(a, b) == a + b
Ovf(n) == n > MAXW

\* Vec::reserve amortised growth for `need` total elements with current capacity cap
VecGrow(cap, need) == Max2(Max2(2 * cap, need), 8)

\* reserve_inner(additional, allocate): returns [M, res] with res in {"true","false","panic"}
ReserveInner(M, h, add, allocate) ==
  LET m == M.hd[h]
      len == m.len
  IN
  IF m.vt = "vec" THEN
     LET off == m.off IN
     IF m.cap - len + off >= add /\ off >= len
     THEN \* shift to the front
          [M |-> Set(Wr(M, m.a, 0, Rd(M, m.a, off, len)), h, [m EXCEPT !.off = 0, !.cap = @ + off]), res |-> "true"]
     ELSE IF ~allocate THEN [M |-> M, res |-> "false"]
     ELSE \* rebuild_vec(len + off, cap + off).reserve(add)
          LET vlen == len + off
              need == vlen + add
          IN IF need > IMAXW THEN [M |-> M, res |-> "panic"]      \* capacity overflow
             ELSE IF VecGrow(m.cap + off, need) > MaxBuf THEN [M |-> M, res |-> "oom"]
             ELSE LET ncap == VecGrow(m.cap + off, need)
                      old == IF m.cap + off > 0 THEN Rd(M, m.a, 0, vlen) ELSE <<>>
                      M1 == AllocBuf(M, ncap, Pad(old, ncap))
                      M2 == IF m.cap + off > 0 THEN Free(M1, m.a, m.cap + off, 1) ELSE M1
                  IN [M |-> Set(M2, h, [m EXCEPT !.a = M.na, !.cap = ncap - off]), res |-> "true"]
  ELSE
     LET c == m.c
         newcap0 == len + add
     IN
     IF Ovf(newcap0) THEN [M |-> M, res |-> IF allocate THEN "panic" ELSE "false"]
     ELSE IF M.mem[c].rc = 1 THEN
        LET vcap == M.mem[c].cap
            off == m.off
            sum == newcap0 + off
        IN
        \* `new_cap.checked_add(offset).map_or(false, |n| v_capacity >= n)` (after the fix: commit 61f3c51)
        IF Mutation = "d1_unchecked_add" /\ Ovf(sum)
        THEN \* the code before the fix: `v_capacity >= new_cap + offset` with an unchecked `+`
             IF Profile = "debug" THEN [M |-> [M EXCEPT !.ovf = TRUE], res |-> "panic"]
             ELSE IF vcap >= sum % WMOD THEN [M |-> [Set(M, h, [m EXCEPT !.cap = newcap0]) EXCEPT !.ovf = TRUE], res |-> "true"]
             ELSE [M |-> [M EXCEPT !.ovf = TRUE], res |-> IF allocate THEN "panic" ELSE "false"]
        ELSE
        IF ~Ovf(sum) /\ vcap >= sum THEN [M |-> Set(M, h, [m EXCEPT !.cap = newcap0]), res |-> "true"]
        ELSE IF vcap >= newcap0 /\ off >= len
        THEN [M |-> Set(Wr(M, m.a, 0, Rd(M, m.a, off, len)), h, [m EXCEPT !.off = 0, !.cap = vcap]), res |-> "true"]
        ELSE IF ~allocate THEN [M |-> M, res |-> "false"]
        ELSE IF Ovf(sum) THEN [M |-> M, res |-> "panic"]     \* checked_add(off).expect("overflow")
        ELSE LET dbl == IF Ovf(2 * vcap) THEN sum ELSE 2 * vcap      \* checked_shl(1).unwrap_or(new_cap)
                 want == Max2(dbl, sum)
                 vlen == off + len
             IN \* v.set_len(off+len); v.reserve(want - vlen)
                \* (with W = 6 the DOUBLED capacity of an in-contract request can pass IMAXW, which no real
                \* machine reaches before the allocator fails: resource exhaustion is cut first)
                IF sum <= IMAXW /\ vcap < want /\ VecGrow(vcap, want) > MaxBuf THEN [M |-> M, res |-> "oom"]
                ELSE IF want > IMAXW THEN [M |-> M, res |-> "panic"]
                ELSE IF vcap >= want THEN [M |-> Set(M, h, [m EXCEPT !.cap = vcap - off]), res |-> "true"]
                ELSE IF VecGrow(vcap, want) > MaxBuf THEN [M |-> M, res |-> "oom"]
                ELSE LET ncap == VecGrow(vcap, want)
                         old == IF vcap > 0 THEN Rd(M, m.a, 0, vlen) ELSE <<>>
                         M1 == AllocBuf(M, ncap, Pad(old, ncap))
                         M2 == IF vcap > 0 THEN Free(M1, m.a, vcap, 1) ELSE M1
                         M3 == [M2 EXCEPT !.mem[c].buf = M.na, !.mem[c].cap = ncap, !.mem[c].vlen = vlen]
                     IN [M |-> Set(M3, h, [m EXCEPT !.a = M.na, !.cap = ncap - off]), res |-> "true"]
     ELSE IF ~allocate THEN [M |-> M, res |-> "false"]
     ELSE \* not unique: fresh Vec of max(new_cap, original capacity), release the old one
          LET want == Max2(newcap0, OrigCap(M.mem[c].orig)) IN
          IF want > IMAXW THEN [M |-> M, res |-> "panic"]
          ELSE IF want > MaxBuf THEN [M |-> M, res |-> "oom"]
          ELSE IF want = 0 THEN
               LET M1 == RelM(M, c) IN [M |-> Set(M1, h, [m EXCEPT !.vt = "vec", !.c = 0, !.a = -100, !.off = 0, !.cap = 0]), res |-> "true"]
          ELSE LET M1 == AllocBuf(M, want, Pad(Rd(M, m.a, m.off, len), want))
                   M2 == RelM(M1, c)
               IN [M |-> Set(M2, h, [m EXCEPT !.vt = "vec", !.c = 0, !.a = M.na, !.off = 0, !.cap = want]), res |-> "true"]

MReserve ==
  /\ \E op \in {"m_reserve", "m_try_reclaim"} :
     /\ En(op) /\ Room(1)
     /\ \E h \in Live("M"), s \in ResArgs :
       LET m == hd[h]
           n == EvalArg(m, s)
           prog == Prog(op, h, s, Z, 0, 0, 0)
           R == IF n <= m.cap - m.len THEN [M |-> Mach, res |-> "true"] ELSE ReserveInner(Mach, h, n, op = "m_reserve")
       IN IF R.res = "oom" THEN FALSE
          ELSE IF R.res = "panic" THEN PanicStep(op, h, n, 0, 0, 0, prog)
          ELSE Commit(R.M, Event(R.M, op, h, n, 0, 0, 0, 0, <<>>, "ok", <<>>,
                                 IF op = "m_reserve" THEN -9 ELSE IF R.res = "true" THEN 1 ELSE 0), prog)

MExtend ==
  /\ En("m_extend") /\ Room(1)
  /\ \E h \in Live("M"), k \in {1, 2} :
       LET m == hd[h]
           d == FreshData(k)
           prog == Prog("m_extend", h, Abs(k), Z, 0, 0, 0)
           R == IF k <= m.cap - m.len THEN [M |-> Mach, res |-> "true"] ELSE ReserveInner(Mach, h, k, TRUE)
       IN IF R.res = "oom" THEN FALSE
          ELSE IF R.res = "panic" THEN PanicStep("m_extend", h, k, 0, 0, 0, prog)
          ELSE LET m1 == R.M.hd[h]
                   M == Set(Wr(R.M, m1.a, m1.off + m1.len, d), h, [m1 EXCEPT !.len = @ + k])
               IN Commit(M, Event(M, "m_extend", h, k, 0, 0, 0, 0, d, "ok", <<>>, -9), prog)

MFillSpare ==
  /\ En("m_fill_spare")
  /\ \E h \in Live("M") :
       LET m == hd[h]
           n == m.cap - m.len
           M == Wr(Mach, m.a, m.off + m.len, [i \in 1..n |-> 224 + ((i - 1) % 16)])
       IN Commit(M, Event(M, "m_fill_spare", h, 0, 0, 0, 0, 0, <<>>, "ok", <<>>, n), Prog("m_fill_spare", h, Z, Z, 0, 0, 0))

MUnsplit ==
  /\ En("m_unsplit") /\ Room(1)
  /\ \E h \in Live("M"), o \in Live("M") :
       /\ h # o
       /\ LET m == hd[h]
              x == hd[o]
              prog == Prog("m_unsplit", h, Z, Z, 0, o, 0)
              fin(M) == Commit(M, Event(M, "m_unsplit", h, 0, 0, 0, o, 0, <<>>, "ok", <<>>, -9), prog)
          IN IF m.len = 0 THEN fin(Ins(Del(DropM(Del(Mach, h), m), o), h, x))     \* *self = other (old self dropped)
             ELSE IF x.cap = 0 THEN fin(DropM(Del(Mach, o), x))
             ELSE IF m.vt = "arc" /\ x.vt = "arc" /\ m.c = x.c /\ m.a = x.a /\ m.off + m.len = x.off
                  THEN fin(RelM(Set(Del(Mach, o), h, [m EXCEPT !.len = @ + x.len, !.cap = @ + x.cap]), x.c))
             ELSE \* extend_from_slice(other), then drop other
                  LET k == x.len
                      d == Rd(Mach, x.a, x.off, k)
                      R == IF k <= m.cap - m.len THEN [M |-> Mach, res |-> "true"] ELSE ReserveInner(Mach, h, k, TRUE)
                  IN IF R.res = "oom" THEN FALSE
                     ELSE IF R.res = "panic" THEN PanicStep("m_unsplit", h, 0, 0, 0, o, prog)
                     ELSE LET m1 == R.M.hd[h]
                              M1 == Set(Wr(R.M, m1.a, m1.off + m1.len, d), h, [m1 EXCEPT !.len = @ + k])
                          IN fin(DropM(Del(M1, o), x))

MFreeze ==
  /\ En("m_freeze") /\ Room(1)
  /\ \E h \in Live("M") :
       LET m == hd[h]
           M0 == Del(Mach, h)
           r == IF m.vt = "vec"
                THEN LET f == FromVecB(M0, m.a, m.len + m.off, m.cap + m.off) IN
                     <<f[1], IF f[2].a = -100 THEN f[2] ELSE [f[2] EXCEPT !.off = m.off, !.len = m.len, !.cap = m.len]>>
                ELSE <<M0, HB("sharedM", FALSE, m.c, m.a, m.off, m.len)>>
           M == Put(r[1], r[2])
       IN Commit(M, Event(M, "m_freeze", h, 0, 0, 0, 0, 0, <<>>, "ok", <<nh>>, -9), Prog("m_freeze", h, Z, Z, 0, 0, 0))

MIntoVec ==
  /\ En("m_into_vec") /\ Room(1)
  /\ \E h \in Live("M") :
       LET m == hd[h]
           M0 == Del(Mach, h)
           r == IF m.vt = "vec"
                THEN <<MoveFront(M0, m.a, m.off, m.len), HV(IF m.cap + m.off = 0 THEN -100 ELSE m.a, m.len, m.cap + m.off)>>
                ELSE IF M0.mem[m.c].rc = 1
                THEN LET buf == M0.mem[m.c].buf cap == M0.mem[m.c].cap
                         M1 == RelM([M0 EXCEPT !.mem[m.c].cap = 0, !.mem[m.c].vlen = 0], m.c)
                     IN <<MoveFront(M1, buf, m.off, m.len), HV(IF cap = 0 THEN -100 ELSE buf, m.len, cap)>>
                ELSE LET cp == CopyOut(M0, m) IN <<RelM(cp[1], m.c), cp[2]>>
           M == Put(r[1], r[2])
       IN Commit(M, Event(M, "m_into_vec", h, 0, 0, 0, 0, 0, <<>>, "ok", <<nh>>, -9), Prog("m_into_vec", h, Z, Z, 0, 0, 0))

(*------------------------- further operations ---------------------------*)
MClone ==
  /\ En("m_clone") /\ HRoom /\ Room(1)
  /\ \E h \in Live("M") :
       LET m == hd[h]
           r == CopyOut(Mach, m)                  \* BytesMut::from(&self[..])
           M == Put(r[1], FromVecM(r[2]))
       IN Commit(M, Event(M, "m_clone", h, 0, 0, 0, 0, 0, <<>>, "ok", <<nh>>, -9), Prog("m_clone", h, Z, Z, 0, 0, 0))

MClear ==
  /\ En("m_clear")
  /\ \E h \in Live("M") :
       LET M == Set(Mach, h, [hd[h] EXCEPT !.len = 0])
       IN Commit(M, Event(M, "m_clear", h, 0, 0, 0, 0, 0, <<>>, "ok", <<>>, -9), Prog("m_clear", h, Z, Z, 0, 0, 0))

\* Buf::copy_to_bytes for BytesMut = split_to(n).freeze()
MCopyToBytes ==
  /\ En("m_copy_to_bytes") /\ HRoom /\ Room(1)
  /\ \E h \in Live("M"), s \in IdxArgs :
       LET m == hd[h]
           at == EvalArg(m, s)
           prog == Prog("m_copy_to_bytes", h, s, Z, 0, 0, 0)
       IN IF at > m.len THEN PanicStep("m_copy_to_bytes", h, at, 0, 0, 0, prog)
          ELSE LET M1 == ShallowCloneM(Mach, h)
                   me == M1.hd[h]
                   M2 == Set(M1, h, AdvM(me, at))
                   M == Put(M2, HB("sharedM", FALSE, me.c, me.a, me.off, at))
               IN Commit(M, Event(M, "m_copy_to_bytes", h, at, 0, 0, 0, 0, <<>>, "ok", <<nh>>, -9), prog)

\* resize(new_len, val): truncate, or reserve(additional) + fill
MResize ==
  /\ En("m_resize") /\ Room(1)
  /\ \E h \in Live("M"), s \in {Abs(0), Arg("len", -1), Arg("len", 1), Arg("cap", 0), Arg("cap", 1), Arg("imax", 1)} :
       LET m == hd[h]
           n == EvalArg(m, s)
           val == 200
           prog == Prog("m_resize", h, s, Z, 0, 0, val)
       IN IF n <= m.len
          THEN LET M == Set(Mach, h, [m EXCEPT !.len = n]) IN
               Commit(M, Event(M, "m_resize", h, n, 0, 0, 0, val, <<>>, "ok", <<>>, -9), prog)
          ELSE LET add == n - m.len
                   R == IF add <= m.cap - m.len THEN [M |-> Mach, res |-> "true"] ELSE ReserveInner(Mach, h, add, TRUE)
               IN IF R.res = "oom" THEN FALSE
                  ELSE IF R.res = "panic" THEN PanicStep("m_resize", h, n, 0, 0, 0, prog)
                  ELSE LET m1 == R.M.hd[h]
                           M == Set(Wr(R.M, m1.a, m1.off + m1.len, [i \in 1..add |-> val]), h, [m1 EXCEPT !.len = n])
                       IN Commit(M, Event(M, "m_resize", h, n, 0, 0, 0, val, <<>>, "ok", <<>>, -9), prog)

\* slice_ref(&self[x..y]) (mode 0) and slice_ref(&other[..]) (mode 3): pointer-range asserts
BSliceRef ==
  /\ En("b_slice_ref") /\ HRoom /\ Room(1)
  /\ \E h \in Live("B") :
       \/ \E x \in {0, 1}, y \in {1, MaxLen} :
            LET b == hd[h]
                xx == Min2(Min2(x, b.len), Min2(y, b.len))
                yy == Max2(Min2(x, b.len), Min2(y, b.len))
                prog == Prog("b_slice_ref", h, Abs(x), Abs(y), 0, 0, 0)
            IN IF xx = yy THEN LET M == Put(Mach, EmptyB) IN Commit(M, Event(M, "b_slice_ref", h, xx, yy, 0, 0, 0, <<>>, "ok", <<nh>>, -9), prog)
               ELSE LET r == CloneB(Mach, h)
                        M == Put(r[1], [r[2] EXCEPT !.off = @ + xx, !.len = yy - xx, !.cap = yy - xx])
                    IN Commit(M, Event(M, "b_slice_ref", h, xx, yy, 0, 0, 0, <<>>, "ok", <<nh>>, -9), prog)
       \/ \E o \in DOMAIN hd \ {h} :
            LET b == hd[h]
                ob == hd[o]
                yy == Min2(MaxLen, ob.len)
                prog == Prog("b_slice_ref", h, Abs(0), Abs(MaxLen), 3, o, 0)
            IN IF yy = 0 THEN LET M == Put(Mach, EmptyB) IN Commit(M, Event(M, "b_slice_ref", h, 0, 0, 3, o, 0, <<>>, "ok", <<nh>>, -9), prog)
               ELSE IF ob.a = b.a /\ ob.a # -100 /\ ob.off >= b.off /\ ob.off + yy <= b.off + b.len
               THEN LET r == CloneB(Mach, h)
                        M == Put(r[1], [r[2] EXCEPT !.off = ob.off, !.len = yy, !.cap = yy])
                    IN Commit(M, Event(M, "b_slice_ref", h, 0, yy, 3, o, 0, <<>>, "ok", <<nh>>, -9), prog)
               ELSE PanicStep("b_slice_ref", h, 0, yy, 3, o, prog)

Next ==
  \/ MClone \/ MClear \/ MCopyToBytes \/ MResize \/ BSliceRef \/ BCloneFrom
  \/ BNew \/ BStatic \/ BFromVec \/ BFromOwner \/ MWithCapacity \/ MFromSlice
  \/ BClone \/ BSlice \/ BSplitOff \/ BSplitTo \/ BTruncate \/ BClear \/ BAdvance
  \/ BIntoVec \/ BIntoMut \/ BTryIntoMut \/ DropAny \/ VIntoBytes
  \/ MSplitOff \/ MSplitTo \/ MTruncate \/ MAdvance \/ MReserve \/ MExtend \/ MFillSpare
  \/ MUnsplit \/ MFreeze \/ MIntoVec

Init ==
  /\ mem = EmptyFn /\ hd = EmptyFn /\ na = 1 /\ nh = 1
  /\ par \in Parities
  /\ lawS = InitState /\ bad = {} /\ ovf = FALSE /\ depth = 0 /\ hist = <<>> /\ pred = <<>> /\ own = <<>>

Spec == Init /\ [][Next]_vars

(***************************************************************************)
(* Properties of the design                                                *)
(***************************************************************************)
\* every design transition is accepted by the law monitor: design => laws
LawsAccept == bad = {}

NoOverflow == ~ovf

\* each counter equals the number of handles holding it
Holders(c) == {h \in DOMAIN hd : hd[h].c = c /\ ~(hd[h].ty = "B" /\ hd[h].vt = "prom" /\ hd[h].kvec)}
RcIsHandleCount ==
  \A c \in DOMAIN mem : mem[c].kind \in {"ctlB", "ctlM", "own"} =>
      IF mem[c].live THEN mem[c].rc = Cardinality(Holders(c)) ELSE Holders(c) = {}

\* nothing allocated by the crate survives its last handle
AllFreed == (DOMAIN hd = {}) => \A a \in DOMAIN mem : ~mem[a].live

\* an unpromoted promotable handle ends exactly at the end of its buffer (every recomputed
\* capacity relies on it)
PromEndsAtEnd == \A h \in DOMAIN hd : (hd[h].ty = "B" /\ hd[h].vt = "prom" /\ hd[h].kvec) => hd[h].off + hd[h].len = mem[hd[h].a].size

(***************************************************************************)
(* Generator: one REPLAY line per complete behaviour (binding G).  A       *)
(* behaviour is complete when it reaches the depth bound or has no live    *)
(* handle left after at least one step.                                    *)
(***************************************************************************)
\* ACTION_CONSTRAINT: evaluated for every transition of the (VIEW-quotiented) state graph,
\* also those leading to a state seen before => edge cover, sampled with rate 1/SampleK.
EmitEdge == (EmitPrograms /\ RandomElement(1..SampleK) = 1) =>
              PrintT(<<"REPLAY", ToJson([par |-> par, ops |-> hist', pred |-> pred'])>>)
=============================================================================

--------------------------- MODULE RefCountProofs ---------------------------
(* Machine-checked proof (tlapm) that RefCount!Spec => []Safe for any Handle set. *)
EXTENDS RefCount, FiniteSetTheorems, TLAPS

(***************************************************************************)
(* Proof (tlapm).                                                           *)
(***************************************************************************)
LEMMA InitInv == Init => Inv
  BY FS_EmptySet DEF Init, Inv

LEMMA NextInv == Inv /\ [Next]_vars => Inv'
<1> SUFFICES ASSUME Inv, [Next]_vars PROVE Inv'
  OBVIOUS
<1>1. ASSUME NEW h \in Handle, CreateVec(h) PROVE Inv'
  <2>1. IsFiniteSet({h}) /\ Cardinality({h}) = 1
    BY FS_Singleton
  <2> QED BY <1>1, <2>1 DEF CreateVec, Inv
<1>2. ASSUME NEW H \in SUBSET Handle, CreateArc(H) PROVE Inv'
  <2>1. Cardinality(H) \in Nat
    BY <1>2, FS_CardinalityType DEF CreateArc
  <2>2. Cardinality(H) # 0
    BY <1>2, FS_EmptySet DEF CreateArc
  <2>3. Cardinality(H) >= 1
    BY <2>1, <2>2
  <2> QED BY <1>2, <2>1, <2>3 DEF CreateArc, Inv
<1>3. ASSUME NEW h \in Handle, Promote(h) PROVE Inv'
  <2>1. IsFiniteSet(live \cup {h}) /\ Cardinality(live \cup {h}) = Cardinality(live) + 1
    BY <1>3, FS_AddElement DEF Promote, Inv
  <2>2. Cardinality(live) = 1
    BY <1>3 DEF Promote, Inv
  <2> QED BY <1>3, <2>1, <2>2 DEF Promote, Inv
<1>4. ASSUME NEW h \in Handle, Acquire(h) PROVE Inv'
  <2>1. IsFiniteSet(live \cup {h}) /\ Cardinality(live \cup {h}) = Cardinality(live) + 1
    BY <1>4, FS_AddElement DEF Acquire, Inv
  <2> QED BY <1>4, <2>1 DEF Acquire, Inv
<1>5. ASSUME NEW h \in Handle, Release(h) PROVE Inv'
  <2>1. IsFiniteSet(live \ {h}) /\ Cardinality(live \ {h}) = Cardinality(live) - 1
    BY <1>5, FS_RemoveElement DEF Release, Inv
  <2>2. rc = Cardinality(live) /\ rc >= 1 /\ frees = 0
    BY <1>5 DEF Release, Inv
  <2>3. CASE rc = 1
    <3>1. Cardinality(live \ {h}) = 0
      BY <2>1, <2>2, <2>3
    <3>2. live \ {h} = {}
      BY <2>1, <3>1, FS_EmptySet
    <3> QED BY <1>5, <2>2, <2>3, <3>2, FS_EmptySet DEF Release, Inv
  <2>4. CASE rc # 1
    <3>1. rc - 1 \in Nat /\ rc - 1 >= 1
      BY <2>2, <2>4 DEF Inv
    <3> QED BY <1>5, <2>1, <2>2, <2>4, <3>1 DEF Release, Inv
  <2> QED BY <2>3, <2>4
<1>6. ASSUME NEW h \in Handle, DropVec(h) PROVE Inv'
  BY <1>6, FS_EmptySet DEF DropVec, Inv
<1>7. ASSUME NEW h \in Handle, NEW g \in Handle, Demote(h, g) PROVE Inv'
  <2>1. IsFiniteSet(live \ {h}) /\ Cardinality(live \ {h}) = Cardinality(live) - 1
    BY <1>7, FS_RemoveElement DEF Demote, Inv
  <2>2. g \notin live \ {h}
    BY <1>7 DEF Demote
  <2>3. IsFiniteSet((live \ {h}) \cup {g}) /\ Cardinality((live \ {h}) \cup {g}) = Cardinality(live \ {h}) + 1
    BY <2>1, <2>2, FS_AddElement
  <2>4. Cardinality(live) = 1
    BY <1>7 DEF Demote, Inv
  <2>5. Cardinality((live \ {h}) \cup {g}) = 1
    BY <2>1, <2>3, <2>4
  <2> QED BY <1>7, <2>3, <2>5 DEF Demote, Inv
<1>11. ASSUME NEW h \in Handle, NEW g \in Handle, PromoteSelf(h, g) PROVE Inv'
  <2>1. IsFiniteSet(live \ {h}) /\ Cardinality(live \ {h}) = Cardinality(live) - 1
    BY <1>11, FS_RemoveElement DEF PromoteSelf, Inv
  <2>2. g \notin live \ {h}
    BY <1>11 DEF PromoteSelf
  <2>3. IsFiniteSet((live \ {h}) \cup {g}) /\ Cardinality((live \ {h}) \cup {g}) = Cardinality(live \ {h}) + 1
    BY <2>1, <2>2, FS_AddElement
  <2>4. Cardinality(live) = 1
    BY <1>11 DEF PromoteSelf, Inv
  <2>5. Cardinality((live \ {h}) \cup {g}) = 1
    BY <2>1, <2>3, <2>4
  <2> QED BY <1>11, <2>3, <2>5 DEF PromoteSelf, Inv
<1>12. ASSUME NEW h \in Handle, NEW g \in Handle, ReleaseTwo(h, g) PROVE Inv'
  <2>1. IsFiniteSet(live \ {h}) /\ Cardinality(live \ {h}) = Cardinality(live) - 1
    BY <1>12, FS_RemoveElement DEF ReleaseTwo, Inv
  <2>2. g \in live \ {h}
    BY <1>12 DEF ReleaseTwo
  <2>3. IsFiniteSet((live \ {h}) \ {g}) /\ Cardinality((live \ {h}) \ {g}) = Cardinality(live \ {h}) - 1
    BY <2>1, <2>2, FS_RemoveElement
  <2>4. (live \ {h}) \ {g} = live \ {h, g}
    OBVIOUS
  <2>5. rc = Cardinality(live) /\ rc \in Nat /\ frees = 0
    BY <1>12 DEF ReleaseTwo, Inv
  <2>6. Cardinality(live \ {h}) \in Nat /\ Cardinality(live \ {h}) # 0
    BY <2>1, <2>2, FS_CardinalityType, FS_EmptySet
  <2>7. rc >= 2 /\ Cardinality(live \ {h, g}) = rc - 2
    BY <2>1, <2>3, <2>4, <2>5, <2>6
  <2>8. CASE rc = 2
    <3>1. live \ {h, g} = {}
      BY <2>3, <2>4, <2>7, <2>8, FS_EmptySet
    <3> QED BY <1>12, <2>5, <2>8, <3>1, FS_EmptySet DEF ReleaseTwo, Inv
  <2>9. CASE rc # 2
    <3>1. rc - 2 \in Nat /\ rc - 2 >= 1
      BY <2>5, <2>7, <2>9
    <3> QED BY <1>12, <2>3, <2>4, <2>5, <2>7, <2>9, <3>1 DEF ReleaseTwo, Inv
  <2> QED BY <2>8, <2>9
<1>8. ASSUME NEW h \in Handle, NEW g \in Handle, Transfer(h, g) PROVE Inv'
  <2>1. IsFiniteSet(live \ {h}) /\ Cardinality(live \ {h}) = Cardinality(live) - 1
    BY <1>8, FS_RemoveElement DEF Transfer, Inv
  <2>2. g \notin live \ {h}
    BY <1>8 DEF Transfer
  <2>3. IsFiniteSet((live \ {h}) \cup {g}) /\ Cardinality((live \ {h}) \cup {g}) = Cardinality(live \ {h}) + 1
    BY <2>1, <2>2, FS_AddElement
  <2>4. Cardinality(live) \in Nat /\ Cardinality(live) # 0
    BY <1>8, FS_CardinalityType, FS_EmptySet DEF Transfer, Inv
  <2>5. Cardinality((live \ {h}) \cup {g}) = Cardinality(live)
    BY <2>1, <2>3, <2>4
  <2> QED BY <1>8, <2>3, <2>5 DEF Transfer, Inv
<1>10. CASE Ephemeral
  BY <1>10, FS_EmptySet DEF Ephemeral, Inv
<1>9. CASE UNCHANGED vars
  BY <1>9 DEF vars, Inv
<1> QED BY <1>1, <1>2, <1>3, <1>4, <1>5, <1>6, <1>7, <1>8, <1>9, <1>10, <1>11, <1>12 DEF Next

LEMMA InvSafe == Inv => Safe
<1> SUFFICES ASSUME Inv PROVE Safe
  OBVIOUS
<1>1. phase = "vec" => live # {}
  BY FS_EmptySet DEF Inv
<1>2. phase = "arc" => live # {}
  BY FS_EmptySet DEF Inv
<1> QED BY <1>1, <1>2 DEF Inv, Safe, ReleasedAtMostOnce, OnlyAfterLastHandle, NoLeak, CountIsHolders

THEOREM Correct == Spec => []Safe
<1>1. Spec => []Inv
  BY InitInv, NextInv, PTL DEF Spec
<1> QED BY <1>1, InvSafe, PTL
=============================================================================

------------------------------ MODULE PureTrace ------------------------------
(* Trace validator for the pure-function properties C14 (Compare) and C15 (ByteLit). *)
EXTENDS Compare, ByteLit, Json, IOUtils

Rec == ndJsonDeserialize(IOEnv.TRACE)
VARIABLES l, nviol, cnt
Bump(c, k) == [x \in DOMAIN c \cup {k} |-> (IF x \in DOMAIN c THEN c[x] ELSE 0) + (IF x = k THEN 1 ELSE 0)]
Init == l = 1 /\ nviol = 0 /\ cnt = [x \in {} |-> 0]
Next ==
  /\ l <= Len(Rec)
  /\ LET e == Rec[l]
         V == CASE e.k = "cmp" -> CmpLaws(e)
                [] e.k = "fmt" -> FmtLaws(e)
                [] e.k = "serde" -> SerdeLaws(e)
                \* a comparison of two byte strings never panics
                [] e.k = "panic" -> {<<(IF e.mode = "cmp" THEN "C14" ELSE "C15"), "no_panic">>}
                \* the process died inside the call (stack overflow, abort)
                [] e.k = "crash" -> {<<(IF e.mode = "cmp" THEN "C14" ELSE "C15"), "no_crash">>}
                [] OTHER -> {}
     IN /\ nviol' = nviol + (IF V # {} THEN 1 ELSE 0)
        /\ cnt' = Bump(cnt, e.k)
        /\ (V # {} => PrintT(<<"LAWVIOL", l, 0, e.k, V>>))
        /\ (l = Len(Rec) => PrintT(<<"DONE", Len(Rec), nviol', cnt'>>))
  /\ l' = l + 1
=============================================================================

------------------------------ MODULE BytesLaws ------------------------------
(***************************************************************************)
(* Law monitor for handle programs over Bytes / BytesMut / Vec<u8>         *)
(* (properties C01-C04, C07, C08, C13; also used by C16 and C18).          *)
(*                                                                         *)
(* This module states the properties and nothing else (DESIGN.md 2.1).     *)
(* It is a pure-operator module: LawStep(S, e) consumes one observed       *)
(* event e (Appendix A.1) in monitor state S and returns the next monitor  *)
(* state together with the set of laws the observation breaks.  It is used *)
(*   - by BytesTrace.tla to judge traces recorded from the real code (V),  *)
(*   - by BytesImpl.tla to check that every transition of the design model *)
(*     is accepted (MC: design => laws).                                   *)
(*                                                                         *)
(* Monitor state S:                                                        *)
(*   val[h]   reference model: every live handle is an independent         *)
(*            sequence of bytes                                            *)
(*   view[h]  last observation [ty, a, off, len, cap, u, d]                *)
(*   led[id]  ledger of allocations made during crate calls                *)
(*            [size, align, live, org]                                     *)
(* Numbers are trace words (Appendix D): MAXW stands for usize::MAX,       *)
(* IMAXW for isize::MAX.                                                   *)
(***************************************************************************)
EXTENDS Integers, Sequences, FiniteSets, TLC

CONSTANTS MAXW, IMAXW, ARENA

Take(s, n) == SubSeq(s, 1, n)
Drop(s, n) == SubSeq(s, n + 1, Len(s))
Min2(a, b) == IF a <= b THEN a ELSE b
Max2(a, b) == IF a >= b THEN a ELSE b
RangeOf(s) == {s[i] : i \in DOMAIN s}
Has(r, f) == f \in DOMAIN r

EmptyFn == [x \in {} |-> 0]

InitState == [val |-> EmptyFn, view |-> EmptyFn, led |-> EmptyFn]

(***************************************************************************)
(* Event accessors                                                         *)
(***************************************************************************)
X(e) == e.args.x
Y(e) == e.args.y
Mode(e) == e.args.mode
Oth(e) == e.args.o
Data(e) == IF Has(e.args, "data") THEN e.args.data ELSE <<>>
New1(e) == IF Len(e.out.new) > 0 THEN e.out.new[1] ELSE 0     \* total: a deviating execution may lack the handle the law expects
HasNew(e) == Len(e.out.new) > 0
Ret(e) == e.out.v
ObsSet(e) == RangeOf(e.obs)
ObsFn(e) == [h \in {o.h : o \in ObsSet(e)} |-> CHOOSE o \in ObsSet(e) : o.h = h]
MemEv(e) == IF Has(e, "mem") THEN e.mem ELSE <<>>
OwnSet(e) == IF Has(e, "own") THEN RangeOf(e.own) ELSE {}

(***************************************************************************)
(* The reference model: what every operation means on independent byte     *)
(* sequences, and which calls are in contract for the observed pre-state.  *)
(* Exp(S,e) = [want |-> "ok" | "panic", nv |-> changed/new values,         *)
(*             gone |-> consumed handles]                                  *)
(***************************************************************************)
Res(want, nv, gone) == [want |-> want, nv |-> nv, gone |-> gone]
Same == Res("ok", EmptyFn, {})
Panics == Res("panic", EmptyFn, {})

SliceBounds(e, len) ==
    \* effective [begin, end) of Bytes::slice for the four range shapes; end = -1: overflow
    CASE Mode(e) \in {1, 5} -> <<X(e), len>>
      [] Mode(e) = 2 -> <<0, Y(e)>>
      [] Mode(e) = 3 -> <<X(e), IF Y(e) >= MAXW THEN -1 ELSE Y(e) + 1>>
      [] OTHER -> <<X(e), Y(e)>>

Exp(S, e) ==
  LET h == e.h
      v == IF h \in DOMAIN S.val THEN S.val[h] ELSE <<>>
      pv == IF h \in DOMAIN S.view THEN S.view[h] ELSE [ty |-> "-", a |-> -100, off |-> 0, len |-> 0, cap |-> 0, u |-> FALSE, d |-> <<>>]
      len == Len(v)
      x == X(e)
      y == Y(e)
      n == IF HasNew(e) THEN New1(e) ELSE 0
  IN
  CASE e.op \in {"b_new", "m_new", "m_with_capacity"} -> Res("ok", n :> <<>>, {})
    [] e.op \in {"b_static", "b_from_vec", "b_from_box", "b_copy", "b_from_iter", "m_zeroed", "m_from_slice"} ->
         Res("ok", n :> Data(e), {})
    [] e.op = "b_from_owner" ->
         IF Mode(e) = 1 THEN Panics ELSE Res("ok", n :> Data(e), {})
    [] e.op \in {"b_clone", "m_clone"} -> Res("ok", n :> v, {})
    \* Clone::clone_from: the target takes the source's value; the source and everything else stay
    [] e.op \in {"b_clone_from", "m_clone_from"} -> IF Oth(e) \in DOMAIN S.val THEN Res("ok", h :> S.val[Oth(e)], {}) ELSE Same
    [] e.op = "b_slice" ->
         LET be == SliceBounds(e, len) IN
         IF be[2] >= 0 /\ be[1] <= be[2] /\ be[2] <= len
         THEN Res("ok", n :> SubSeq(v, be[1] + 1, be[2]), {}) ELSE Panics
    [] e.op = "b_slice_ref" ->
         CASE Mode(e) = 0 -> Res("ok", n :> SubSeq(v, x + 1, y), {})
           [] Mode(e) = 1 -> Panics
           [] Mode(e) = 2 -> Res("ok", n :> <<>>, {})
           [] OTHER ->
                LET o == Oth(e)
                    ov == S.view[o]
                IN IF x = y THEN Res("ok", n :> <<>>, {})
                   ELSE IF /\ ov.a = pv.a /\ ov.a # -100
                           /\ ov.off + x >= pv.off
                           /\ ov.off + y <= pv.off + pv.len
                        THEN Res("ok", n :> SubSeq(S.val[o], x + 1, y), {})
                        ELSE Panics
    [] e.op \in {"b_split_off"} ->
         IF x <= len THEN Res("ok", (h :> Take(v, x)) @@ (n :> Drop(v, x)), {}) ELSE Panics
    [] e.op \in {"b_split_to", "b_copy_to_bytes", "m_split_to", "m_copy_to_bytes"} ->
         IF x <= len THEN Res("ok", (h :> Drop(v, x)) @@ (n :> Take(v, x)), {}) ELSE Panics
    [] e.op = "m_split" -> Res("ok", (h :> <<>>) @@ (n :> v), {})
    [] e.op \in {"b_truncate", "m_truncate"} ->
         IF x < len THEN Res("ok", h :> Take(v, x), {}) ELSE Same   \* documented no-op beyond the end
    [] e.op \in {"b_clear", "m_clear"} -> Res("ok", h :> <<>>, {})
    [] e.op \in {"b_advance", "m_advance", "b_copy_to_slice", "m_copy_to_slice"} ->
         IF x <= len THEN Res("ok", h :> Drop(v, x), {}) ELSE Panics
    [] e.op \in {"b_into_vec", "b_into_mut", "m_freeze", "m_into_vec", "v_into_bytes"} ->
         Res("ok", n :> v, {h})
    [] e.op = "b_try_into_mut" ->
         IF Ret(e) = 1 THEN Res("ok", n :> v, {h}) ELSE Same
    [] e.op = "m_split_off" ->
         IF x <= pv.cap THEN Res("ok", (h :> Take(v, Min2(x, len))) @@ (n :> Drop(v, Min2(x, len))), {}) ELSE Panics
    [] e.op = "m_resize" ->
         IF x <= len THEN Res("ok", h :> Take(v, x), {})
         ELSE IF x <= IMAXW THEN Res("ok", h :> v \o [i \in 1..(x - len) |-> e.args.val], {})
         ELSE Panics
    [] e.op = "m_reserve" ->
         \* a request whose size is not representable (len + n > isize::MAX) must panic
         IF x >= 0 /\ len + x <= IMAXW THEN Same ELSE Panics
    [] e.op = "m_try_reclaim" ->
         \* an unrepresentable request may be refused by `false` or (C13) by a panic
         IF x >= 0 /\ len + x <= IMAXW THEN Same ELSE Res("either", EmptyFn, {})
    [] e.op \in {"m_fill_spare", "m_chunk_mut_fill"} -> Same
    [] e.op = "m_extend" -> Res("ok", h :> v \o Data(e), {})
    [] e.op = "m_put_bytes" ->
         \* (a count that makes the length unrepresentable must panic, in every build)
         IF x >= 0 /\ len + x <= IMAXW THEN Res("ok", h :> v \o [i \in 1..x |-> e.args.val], {}) ELSE Panics
    [] e.op = "m_write_at" ->
         IF Ret(e) >= 0 /\ Ret(e) < len THEN Res("ok", h :> [v EXCEPT ![Ret(e) + 1] = e.args.val], {}) ELSE Same
    [] e.op = "m_unsplit" -> Res("ok", h :> v \o S.val[Oth(e)], {Oth(e)})
    [] e.op = "drop" -> Res("ok", EmptyFn, {h})
    [] OTHER -> Same

(***************************************************************************)
(* Ledger bookkeeping from the allocator events of one call                *)
(***************************************************************************)
RECURSIVE ApplyMem(_, _, _)
ApplyMem(led, mem, i) ==
  IF i > Len(mem) THEN led
  ELSE LET m == mem[i] IN
       IF m.e = "alloc" THEN
            ApplyMem((m.id :> [size |-> m.size, align |-> m.align, live |-> TRUE, org |-> m.org]) @@ led, mem, i + 1)
       ELSE IF m.e = "free" /\ m.id \in DOMAIN led THEN
            ApplyMem([led EXCEPT ![m.id].live = FALSE], mem, i + 1)
       ELSE ApplyMem(led, mem, i + 1)

AllocsOf(e) == {m \in RangeOf(MemEv(e)) : m.e = "alloc" /\ m.org = 1}
BufAllocsOf(e) == {m \in AllocsOf(e) : m.align = 1}
FreesOf(e) == {m \in RangeOf(MemEv(e)) : m.e = "free"}

(***************************************************************************)
(* The laws.  Each returns a set of <<property, law>> pairs.               *)
(***************************************************************************)

\* ---- C01: value model -------------------------------------------------
LogLimit == 16384
ValueLaws(S, e, E, k, val2, obs) ==
  (IF E.want = "ok" /\ k # "ok" THEN {<<"C01", "in_contract_ok">>} ELSE {})
  \* the bytes a copying read delivered are the first x bytes the handle held
  \cup (IF /\ e.op \in {"b_copy_to_slice", "m_copy_to_slice"} /\ E.want = "ok" /\ k = "ok" /\ e.h \in DOMAIN S.val
           /\ Data(e) # SubSeq(S.val[e.h], 1, X(e))
        THEN {<<"C01", "value_eq">>} ELSE {})
  \cup (IF DOMAIN obs # DOMAIN val2 THEN {<<"C01", "value_eq">>}
        \* (the harness does not log contents longer than LogLimit bytes: only the length is compared then)
        ELSE IF \E h \in DOMAIN obs : obs[h].len # Len(val2[h]) \/ (obs[h].len >= 0 /\ obs[h].len <= LogLimit /\ obs[h].d # val2[h])
             THEN {<<"C01", "value_eq">>} ELSE {})

\* Same address?  Under adjacent placement a one-past-the-end pointer of block A is also the
\* start of block B; the harness logs the second reading as a2/off2.
SameAddr(p, q) == \/ (p.a = q.a /\ p.off = q.off)
                  \/ (q.a2 # 0 /\ q.a2 = p.a /\ q.off2 = p.off)
                  \/ (p.a2 # 0 /\ p.a2 = q.a /\ p.off2 = q.off)

\* handles the call may legitimately change
Touched(e) == {e.h} \cup (IF e.op \in {"b_clone_from", "m_clone_from"} THEN {} ELSE {Oth(e)}) \cup RangeOf(e.out.new)

OthersUnchanged(S, e, obs) ==
  LET bad == {h \in (DOMAIN obs \cap DOMAIN S.view) \ Touched(e) :
                 LET p == S.view[h] q == obs[h] IN
                 ~SameAddr(p, q) \/ p.len # q.len \/ p.cap # q.cap \/ p.d # q.d}
  IN (IF \E h \in bad : obs[h].ty = "M" THEN {<<"C04", "others_unchanged">>} ELSE {})
     \cup (IF bad # {} THEN {<<"C01", "others_unchanged">>} ELSE {})

\* ---- C02: memory ------------------------------------------------------
MemLaws(e) ==
  LET ms == RangeOf(MemEv(e)) IN
  (IF \E m \in ms : m.e = "free" /\ (m.size # m.rsize \/ m.align # m.ralign) THEN {<<"C02", "free_exact">>} ELSE {})
  \* a free of something that is not a live block: a second release of the same storage (C03:
  \* "released exactly once") as well as a memory-safety violation (C02)
  \cup (IF \E m \in ms : m.e = "bad_free" THEN {<<"C02", "free_exact">>, <<"C03", "released_once">>} ELSE {})
  \cup (IF \E m \in ms : m.e \in {"redzone", "poison"} THEN {<<"C02", "no_guard_damage">>} ELSE {})
  \* a write into storage that was already released (the quarantined block no longer holds the
  \* poison pattern): some handle still used it, it was released too early or twice (C03)
  \cup (IF \E m \in ms : m.e = "poison" THEN {<<"C03", "used_after_release">>} ELSE {})

InAlloc(o, led, own) ==
  \* is the region the handle claims inside the storage it points to?
  LET ext == IF o.ty = "B" THEN o.len ELSE o.cap IN
  IF o.len < 0 \/ o.cap < 0 \/ o.off < 0 THEN FALSE
  ELSE IF o.ty # "B" /\ o.len > o.cap THEN FALSE
  ELSE IF ext = 0 THEN TRUE
  ELSE IF o.a > 0 THEN
          /\ o.a \in DOMAIN led
          /\ led[o.a].live
          /\ o.off + ext <= led[o.a].size
          /\ (o.ty = "V" => o.off = 0 /\ o.cap = led[o.a].size)
  ELSE IF o.a = -1 THEN o.ty = "B" /\ (o.off + ext <= ARENA \/ o.off >= ARENA + 64)
  ELSE IF o.a <= -2 /\ o.a > -100 THEN
          /\ o.ty = "B"
          /\ \E w \in own : w.o = -2 - o.a /\ o.off + ext <= w.size
  ELSE FALSE

ViewInAlloc(obs, led, own) ==
  LET bad == {h \in DOMAIN obs : ~InAlloc(obs[h], led, own)} IN
  (IF bad # {} THEN {<<"C02", "view_in_alloc">>} ELSE {})
  \cup (IF \E h \in bad : obs[h].ty = "M" THEN {<<"C04", "view_in_alloc">>} ELSE {})

\* ---- C04: exclusive regions, reserve, try_reclaim ----------------------
Ext(o) == IF o.ty = "B" THEN o.len ELSE o.cap
Overlap(p, q) == p.a = q.a /\ p.a > 0 /\ Ext(p) > 0 /\ Ext(q) > 0
                 /\ p.off < q.off + Ext(q) /\ q.off < p.off + Ext(p)

RegionsDisjoint(obs) ==
  IF \E g, h \in DOMAIN obs : g # h /\ (obs[g].ty # "B" \/ obs[h].ty # "B") /\ Overlap(obs[g], obs[h])
  THEN {<<"C04", "regions_disjoint">>} ELSE {}

ReserveLaws(S, e, k, obs) ==
  IF k # "ok" \/ e.h \notin DOMAIN obs \/ e.h \notin DOMAIN S.view THEN {}
  ELSE LET p == S.view[e.h] q == obs[e.h] IN
  CASE e.op = "m_reserve" ->
         IF q.cap - q.len >= X(e) THEN {} ELSE {<<"C04", "reserve_post">>}
    [] e.op = "m_try_reclaim" ->
         IF Ret(e) = 1
         THEN (IF q.cap - q.len >= X(e) /\ AllocsOf(e) = {} THEN {} ELSE {<<"C04", "reclaim_post">>})
         ELSE (IF SameAddr(p, q) /\ p.len = q.len /\ p.cap = q.cap /\ AllocsOf(e) = {}
               THEN {} ELSE {<<"C04", "reclaim_post">>})
    [] e.op \in {"m_fill_spare"} ->
         IF Ret(e) = p.cap - p.len THEN {} ELSE {<<"C04", "spare_exact">>}
    [] OTHER -> {}

\* ---- C03: release exactly once, after the last handle ------------------
ReleaseLaws(e, led2, obs) ==
  LET pointed == {obs[h].a : h \in DOMAIN obs} \cup {obs[h].a2 : h \in DOMAIN obs}
      leaked == {id \in DOMAIN led2 : led2[id].live /\ led2[id].org = 1 /\ led2[id].align = 1 /\ id \notin pointed}
      \* a freed block that a live non-empty handle still reads: it holds the first (a) or the
      \* last (ae) byte of the handle's view
      early == {m \in FreesOf(e) : \E h \in DOMAIN obs : (obs[h].a = m.id \/ obs[h].ae = m.id) /\ obs[h].len > 0}
  IN (IF leaked # {} THEN {<<"C03", "freed_at_last">>} ELSE {})
     \cup (IF early # {} THEN {<<"C03", "not_freed_early">>} ELSE {})

OwnerLaws(e, obs) ==
  LET bad == {w \in OwnSet(e) :
                \/ w.asref # 1
                \/ w.drops > 1
                \/ (w.drops > 0 /\ \E h \in DOMAIN obs : obs[h].a = -2 - w.o /\ obs[h].len > 0)
                \/ (w.drops = 0 /\ ~\E h \in DOMAIN obs : obs[h].a = -2 - w.o)}
  IN IF bad # {} THEN {<<"C03", "owner_once">>} ELSE {}

EndLaws(e) ==
  IF e.live # <<>> THEN {<<"C03", "ledger_empty_at_end">>, <<"C13", "ledger_empty_at_end">>} ELSE {}

\* ---- C07: zero copy ----------------------------------------------------
\* under adjacent placement a one-past-the-end pointer has two readings (a2/off2)
At(o, a, off) == (o.a = a /\ o.off = off) \/ (o.a2 # 0 /\ o.a2 = a /\ o.off2 = off)

ZeroCopy(S, e, k, obs) ==
  IF k # "ok" \/ (e.h # 0 /\ e.h \notin DOMAIN S.view) THEN {}
  ELSE
  LET h == e.h
      p == IF h = 0 THEN [ty |-> "-", a |-> -100, off |-> 0, len |-> 0, cap |-> 0, u |-> FALSE] ELSE S.view[h]
      n == IF HasNew(e) THEN New1(e) ELSE 0
      r == IF n \in DOMAIN obs THEN obs[n] ELSE p
      q == IF h \in DOMAIN obs THEN obs[h] ELSE p
      x == X(e)
      noalloc == IF BufAllocsOf(e) = {} THEN {} ELSE {<<"C07", "zero_copy_noalloc">>}
      addr(ok) == IF ok THEN {} ELSE {<<"C07", "zero_copy_addr">>}
      eaddr(ok) == IF ok THEN {} ELSE {<<"C07", "split_empty_addr">>}
      known == p.a # -100
  IN
  CASE e.op = "b_clone" -> noalloc \cup addr(r.len = 0 \/ At(r, p.a, p.off))
    [] e.op = "b_clone_from" ->
         IF Oth(e) \in DOMAIN S.view THEN noalloc \cup addr(q.len = 0 \/ At(q, S.view[Oth(e)].a, S.view[Oth(e)].off)) ELSE {}
    [] e.op = "b_slice" ->
         LET be == SliceBounds(e, p.len) IN noalloc \cup addr(r.len = 0 \/ At(r, p.a, p.off + be[1]))
    [] e.op = "b_slice_ref" ->
         IF Mode(e) = 0 THEN noalloc \cup addr(r.len = 0 \/ At(r, p.a, p.off + x))
         ELSE IF Mode(e) = 3 THEN noalloc \cup addr(r.len = 0 \/ At(r, S.view[Oth(e)].a, S.view[Oth(e)].off + x))
         ELSE noalloc
    [] e.op \in {"b_split_off", "m_split_off"} ->
         noalloc \cup (IF known THEN eaddr(At(q, p.a, p.off) /\ At(r, p.a, p.off + x)) ELSE {})
    [] e.op \in {"b_split_to", "b_copy_to_bytes", "m_split_to"} ->
         noalloc \cup (IF known THEN eaddr(At(r, p.a, p.off) /\ At(q, p.a, p.off + x)) ELSE {})
    [] e.op = "m_split" ->
         noalloc \cup (IF known THEN eaddr(At(r, p.a, p.off) /\ At(q, p.a, p.off + p.len)) ELSE {})
    [] e.op \in {"b_truncate", "b_clear", "m_truncate", "m_clear"} ->
         noalloc \cup addr(q.len = 0 \/ At(q, p.a, p.off))
    [] e.op \in {"b_advance", "m_advance", "b_copy_to_slice", "m_copy_to_slice"} ->
         noalloc \cup addr(q.len = 0 \/ At(q, p.a, p.off + x))
    [] e.op = "m_freeze" -> noalloc \cup addr(r.len = 0 \/ At(r, p.a, p.off))
    [] e.op = "b_static" -> noalloc \cup addr(r.len = 0 \/ r.a = -1)
    [] e.op = "b_from_owner" -> noalloc \cup addr(r.len = 0 \/ r.a <= -2)
    [] e.op \in {"b_into_mut", "b_try_into_mut"} ->
         \* "uniquely held": the handle says so, or (for the infallible conversion) no other live
         \* handle is located in its block -- a count that is too high must not turn the
         \* conversion of the only holder into a copy
         LET sole == /\ p.a > 0 /\ p.len > 0 /\ p.a \in DOMAIN S.led /\ S.led[p.a].live
                     /\ ~\E g \in DOMAIN S.view : g # h /\ (S.view[g].a = p.a \/ S.view[g].a2 = p.a)
         IN IF (p.u \/ (sole /\ e.op = "b_into_mut")) /\ (e.op = "b_into_mut" \/ Ret(e) = 1)
            THEN noalloc \cup addr(r.len = 0 \/ At(r, p.a, p.off)) ELSE {}
    [] e.op = "m_unsplit" ->
         LET o == S.view[Oth(e)] IN
         IF p.len = 0 THEN noalloc \cup addr(q.len = 0 \/ At(q, o.a, o.off))
         ELSE IF o.cap > 0 /\ o.a = p.a /\ p.a > 0 /\ p.off + p.len = o.off
              THEN noalloc \cup addr(At(q, p.a, p.off))
              ELSE {}
    [] OTHER -> {}

\* ---- C08: uniqueness ---------------------------------------------------
UniqueLaws(S, e, k, obs, led2) ==
  LET bs == {h \in DOMAIN obs : obs[h].ty = "B"}
      others(h) == {g \in DOMAIN obs : g # h /\ (obs[g].a = obs[h].a \/ obs[g].a2 = obs[h].a)}
      \* a = -1: the harness' static arena; -99..-2: owner memory.  (-100 = "no storage":
      \* a dangling zero-capacity buffer is neither, the property is silent about it)
      f1 == \E h \in bs : obs[h].u /\ obs[h].a <= -1 /\ obs[h].a > -100
      \* a non-empty handle is located by an interior address, so only its primary reading counts
      f2 == \E h \in bs : obs[h].u /\ obs[h].a > 0 /\ (obs[h].len > 0 \/ obs[h].a2 = 0) /\ \E g \in DOMAIN obs : g # h /\ obs[g].a = obs[h].a /\ obs[g].len > 0
      f3 == \E h \in bs : ~obs[h].u /\ obs[h].len > 0 /\ obs[h].a > 0 /\ obs[h].a \in DOMAIN led2
                           /\ led2[obs[h].a].live /\ others(h) = {}
  IN (IF f1 THEN {<<"C08", "uniq_false_static_owner">>} ELSE {})
     \cup (IF f2 THEN {<<"C08", "uniq_false_when_shared">>} ELSE {})
     \cup (IF f3 THEN {<<"C08", "uniq_true_when_sole">>} ELSE {})
     \cup (IF e.op = "b_try_into_mut" /\ k = "ok" /\ e.h \in DOMAIN S.view /\ (Ret(e) = 1) # S.view[e.h].u
           THEN {<<"C08", "try_into_mut_iff_unique">>} ELSE {})
     \* "... and then returns the same memory": the BytesMut a unique handle turns into lies where
     \* the handle's bytes were, and the conversion gives no byte buffer back to the allocator
     \* (an empty unique handle still owns its allocation and hands it on)
     \cup (IF /\ e.op = "b_try_into_mut" /\ k = "ok" /\ e.h \in DOMAIN S.view /\ Ret(e) = 1 /\ S.view[e.h].u /\ HasNew(e)
              /\ LET p == S.view[e.h]
                     r == IF New1(e) \in DOMAIN obs THEN obs[New1(e)] ELSE p
                 IN \/ (p.len > 0 /\ ~At(r, p.a, p.off))
                    \/ \E m \in FreesOf(e) : m.id \in DOMAIN S.led /\ S.led[m.id].align = 1 /\ S.led[m.id].org = 1
           THEN {<<"C08", "try_into_mut_same_memory">>} ELSE {})
     \cup (IF /\ e.op \in {"m_try_reclaim", "m_reserve"} /\ k = "ok" /\ e.h \in DOMAIN S.view
              /\ LET p == S.view[e.h] IN
                   /\ p.len = 0 /\ p.a > 0 /\ p.a \in DOMAIN S.led /\ S.led[p.a].live
                   /\ X(e) >= 0 /\ X(e) <= S.led[p.a].size
                   /\ ~\E g \in DOMAIN S.view : g # e.h /\ (S.view[g].a = p.a \/ S.view[g].a2 = p.a)
                   /\ (BufAllocsOf(e) # {} \/ (e.op = "m_try_reclaim" /\ Ret(e) # 1))
           THEN {<<"C08", "sole_empty_reclaims">>, <<"C18", "sole_empty_reclaims">>} ELSE {})

\* ---- C13: contract violations ------------------------------------------
ContractLaws(S, e, E, k, obs) ==
  (IF E.want = "panic" /\ k = "ok" THEN {<<"C13", "must_panic">>} ELSE {})
  \cup (IF k = "abort" THEN {<<"C13", "no_crash">>, <<"C02", "no_crash">>} ELSE {})
  \* a crash inside an operation on a BytesMut: its region (pointer, capacity, the offset encoded
  \* in its data word) no longer described one live allocation
  \cup (IF k = "abort" /\ e.ty = "M" THEN {<<"C04", "no_crash">>} ELSE {})
  \* the operation returned and the process died while the harness read the live handles through
  \* len / capacity / deref / is_unique: no handle "reads exactly its bytes", no truthful answer
  \cup (IF k = "abort" /\ Ret(e) = -8 THEN {<<"C01", "observe_crash">>, <<"C08", "observe_crash">>} ELSE {})
  \cup (IF k = "panic" /\ (DOMAIN obs # DOMAIN S.view \/
             \E h \in DOMAIN obs \cap DOMAIN S.view :
                LET p == S.view[h] q == obs[h] IN
                ~SameAddr(p, q) \/ p.len # q.len \/ p.cap # q.cap \/ p.d # q.d)
        THEN {<<"C13", "panic_preserves">>} ELSE {})

(***************************************************************************)
(* One monitor step.                                                       *)
(***************************************************************************)
\* An operation that released the last handle of an owner whose destructor panics (outcome
\* "opanic": the panic is the environment's, raised after the crate ran the destructor) is judged
\* as what it did to the handles: the consumed handle is gone and nothing was created, i.e. a
\* `drop` of that handle -- the owner, release and ledger laws apply in full.
Norm(e) == IF e.op \notin {"reset", "end"} /\ e.out.k = "opanic"
           THEN [e EXCEPT !.op = "drop", !.out = [k |-> "ok", new |-> <<>>, v |-> -9]]
           ELSE e

LawStep(S, e0) ==
  LET e == Norm(e0) IN
  IF e.op = "reset" THEN [S |-> InitState, V |-> {}]
  ELSE IF e.op = "end" THEN [S |-> S, V |-> EndLaws(e) \cup MemLaws(e)]
  ELSE
  LET E == Exp(S, e)
      k == e.out.k
      obs == ObsFn(e)
      val2 == IF k = "ok" THEN E.nv @@ [h \in DOMAIN S.val \ E.gone |-> S.val[h]]
              ELSE S.val
      led2 == ApplyMem(S.led, MemEv(e), 1)
      V == ValueLaws(S, e, E, k, val2, obs)
           \cup OthersUnchanged(S, e, obs)
           \cup MemLaws(e)
           \cup ViewInAlloc(obs, led2, OwnSet(e))
           \cup RegionsDisjoint(obs)
           \cup ReserveLaws(S, e, k, obs)
           \cup ReleaseLaws(e, led2, obs)
           \cup OwnerLaws(e, obs)
           \cup ZeroCopy(S, e, k, obs)
           \cup UniqueLaws(S, e, k, obs, led2)
           \cup ContractLaws(S, e, E, k, obs)
      \* after a violation the monitor adopts the observation so that it stays in step
      S2 == [val |-> IF V = {} THEN val2 ELSE [h \in DOMAIN obs |-> obs[h].d],
             view |-> obs,
             led |-> led2]
  IN [S |-> S2, V |-> V]

\* which laws had a non-trivial antecedent on this event (vacuity accounting)
Exercised(S, e) ==
  IF e.op \in {"reset", "end"} THEN {e.op}
  ELSE {e.op, e.out.k}
       \cup (IF FreesOf(e) # {} THEN {"free"} ELSE {})
       \cup (IF AllocsOf(e) # {} THEN {"alloc"} ELSE {})
       \cup (IF \E o \in ObsSet(e) : o.ty = "B" /\ o.u THEN {"unique_true"} ELSE {})
=============================================================================

CONSTANTS
  MAXW = 1073741823
  IMAXW = 536870911
  NativeLE = TRUE
  Side = "mut"
  MaxDepth = 2
  MaxLeaves = 2
  MaxOps = 2
  LeafTypes = {"slice", "uninit", "vec", "bytesmut"}
  LeafLens = {0, 1, 3}
  OpNames = {"remaining_mut", "chunk_mut_len", "put_slice", "put", "put_buf"}
  GetNames = {"put_u8", "put_u16_le", "put_uint", "put_i32", "put_int_le"}
  Ns = {0, 3, 8}
  Emit = FALSE
  SampleK = 1
  Wraps = {"ref"}
  RootLimitOnly = FALSE
  DesignMutation = "none"
INIT SInit
NEXT SNext
INVARIANT LawsAccept
CHECK_DEADLOCK FALSE

CONSTANTS
  K = 0
  MaxMsg = 3
  Caps0 = {0, 1, 5, 8}
  NA = 3
  MaxSize = 40
  MaxLive = 80
  MinCap = 8
  OrigMinW = 2
  OrigMaxW = 4
  MaxLeft = 2
  RoundTrips = TRUE
SPECIFICATION Spec
INVARIANTS SizeBounded LiveBounded EmptySoleReserveNoAlloc RcSane
PROPERTY NoSteadyAlloc
CHECK_DEADLOCK FALSE

CONSTANTS
  MAXW = 1073741823
  IMAXW = 536870911
  NativeLE = TRUE
INIT Init
NEXT Next
CHECK_DEADLOCK FALSE

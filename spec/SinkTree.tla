------------------------------- MODULE SinkTree -------------------------------
(***************************************************************************)
(* Design model of the crate's sinks (src/buf/buf_mut.rs, chain.rs,        *)
(* limit.rs, bytes_mut.rs BufMut impl), implementation-shaped: a leaf has  *)
(* a capacity and presents its writable space through chunk_mut() as the   *)
(* real object does (fixed slices: the rest; Vec / BytesMut: the spare      *)
(* capacity, after reserve(64) when full); Chain and Limit transcribe      *)
(* remaining_mut / chunk_mut / advance_mut; put_slice / put_bytes / put    *)
(* are the default loops except where the implementor overrides them       *)
(* (slices, Vec, BytesMut; &mut B and Box<B> forward put_slice/put_bytes   *)
(* but not put).                                                           *)
(*                                                                         *)
(* TLC builds every target tree up to the bounds (actions of BufGen with   *)
(* Side = "mut"), applies every write with boundary sizes and checks that  *)
(* the result is accepted by the law monitor BufLaws.MutStep: the design   *)
(* of the sinks satisfies C11 and the write side of C12 within the bounds. *)
(***************************************************************************)
EXTENDS BufGen

CONSTANT DesignMutation   \* "none" | "limit_keeps" (Limit::advance_mut forgets `limit -= cnt`) | "put_whole_chunk" (seeded C11-B)

VARIABLES dt, badlaws, nops, pred
svars == <<stack, phase, tree0, tree, ops, nleaf, dt, badlaws, nops, pred>>

Grow == 64     \* BytesMut / Vec: chunk_mut() on a full buffer reserves 64 bytes

RECURSIVE SRoom(_), SChunkLen(_), SAdv(_, _), SPutSlice(_, _)

\* remaining_mut()
SRoom(t) ==
  CASE t.k = "leaf" -> t.room
    [] t.k = "chain" -> Min2(MAXW, SRoom(t.a) + SRoom(t.b))
    [] t.k = "limit" -> Min2(SRoom(t.t), t.limit)
    [] OTHER -> SRoom(t.t)

\* chunk_mut().len() (growable leaves: spare capacity, 64 fresh bytes when full)
SChunkLen(t) ==
  CASE t.k = "leaf" -> IF t.fixed THEN t.room
                       ELSE LET spare == t.cap + t.pre - (t.pre + Len(t.w)) IN IF spare > 0 THEN spare ELSE Grow
    [] t.k = "chain" -> IF SRoom(t.a) > 0 THEN SChunkLen(t.a) ELSE SChunkLen(t.b)
    [] t.k = "limit" -> Min2(SChunkLen(t.t), t.limit)
    [] OTHER -> SChunkLen(t.t)

\* write s (|s| <= chunk length) into the current chunk and advance_mut(|s|): [ok, t]
SAdv(t, s) ==
  LET n == Len(s) IN
  CASE t.k = "leaf" ->
         IF t.fixed /\ n > t.room THEN [ok |-> FALSE, t |-> t]
         ELSE [ok |-> TRUE, t |-> [t EXCEPT !.w = @ \o s, !.room = @ - n,
                                            !.cap = IF ~t.fixed /\ Len(t.w) + n > @ THEN Len(t.w) + n ELSE @]]
    [] t.k = "chain" ->
         LET ar == SRoom(t.a) IN
         IF ar # 0 THEN
              IF ar >= n THEN LET r == SAdv(t.a, s) IN [ok |-> r.ok, t |-> [t EXCEPT !.a = r.t]]
              ELSE LET r1 == SAdv(t.a, Take(s, ar))
                       r2 == SAdv(t.b, Drop(s, ar))
                   IN [ok |-> r1.ok /\ r2.ok, t |-> [t EXCEPT !.a = r1.t, !.b = r2.t]]
         ELSE LET r == SAdv(t.b, s) IN [ok |-> r.ok, t |-> [t EXCEPT !.b = r.t]]
    [] t.k = "limit" ->
         IF n > t.limit THEN [ok |-> FALSE, t |-> t]                 \* assert!(cnt <= self.limit)
         ELSE LET r == SAdv(t.t, s) IN [ok |-> r.ok, t |-> IF r.ok /\ DesignMutation # "limit_keeps" THEN [t EXCEPT !.t = r.t, !.limit = @ - n] ELSE [t EXCEPT !.t = r.t]]
    [] OTHER -> LET r == SAdv(t.t, s) IN [ok |-> r.ok, t |-> [t EXCEPT !.t = r.t]]

\* the default put_slice loop: chunk_mut / copy min / advance_mut
RECURSIVE PutLoop(_, _)
PutLoop(t, s) ==
  IF s = <<>> THEN [ok |-> TRUE, t |-> t]
  ELSE LET cnt == Min2(Len(s), SChunkLen(t)) IN
       IF cnt = 0 THEN [ok |-> FALSE, t |-> t]
       ELSE LET r == SAdv(t, Take(s, cnt)) IN
            IF ~r.ok THEN r ELSE PutLoop(r.t, Drop(s, cnt))

\* put_slice as dispatched by the implementor
SPutSlice(t, s) ==
  CASE t.k = "leaf" ->
         IF t.fixed THEN (IF t.room < Len(s) THEN [ok |-> FALSE, t |-> t] ELSE SAdv(t, s))     \* slices: check, copy, advance
         ELSE SAdv(t, s)                                                                       \* Vec / BytesMut: extend_from_slice (reserves)
    [] t.k \in {"ref", "box"} -> LET r == SPutSlice(t.t, s) IN [ok |-> r.ok, t |-> [t EXCEPT !.t = r.t]]   \* forwarded
    [] OTHER -> IF SRoom(t) < Len(s) THEN [ok |-> FALSE, t |-> t] ELSE PutLoop(t, s)            \* Chain, Limit: default

\* put(src: Buf): the default loop over the source's chunks (Vec / BytesMut override it with
\* the same chunk-wise extend_from_slice); not forwarded by &mut / Box
RECURSIVE PutChunks(_, _)
PutChunks(t, cs) ==
  IF cs = <<>> THEN [ok |-> TRUE, t |-> t]
  ELSE IF Head(cs) = <<>> THEN PutChunks(t, Tail(cs))
  ELSE LET r == IF t.k = "leaf" /\ ~t.fixed THEN SAdv(t, Head(cs)) ELSE PutLoop(t, Head(cs)) IN
       IF ~r.ok THEN r ELSE PutChunks(r.t, Tail(cs))

RECURSIVE SrcChunks(_)
SrcChunks(s) ==
  CASE s.k = "leaf" -> LET RECURSIVE Sp(_, _)
                           Sp(d, cl) == IF cl = <<>> THEN <<>> ELSE <<Take(d, Head(cl))>> \o Sp(Drop(d, Head(cl)), Tail(cl))
                       IN Sp(s.d, s.cl)
    [] s.k = "chain" -> SrcChunks(s.a) \o SrcChunks(s.b)
    [] OTHER -> SrcChunks(s.t)

RECURSIVE SProj(_)
SProj(t) ==
  CASE t.k = "leaf" -> [k |-> "leaf", ty |-> t.ty, fixed |-> t.fixed, room |-> t.room, limit |-> 0, guard |-> TRUE, w |-> t.w]
    [] t.k = "chain" -> [k |-> "chain", limit |-> 0, a |-> SProj(t.a), b |-> SProj(t.b)]
    [] t.k = "limit" -> [k |-> "limit", limit |-> t.limit, t |-> SProj(t.t)]
    [] t.k \in {"ref", "box"} -> [k |-> t.k, limit |-> 0, t |-> SProj(t.t)]
    [] OTHER -> t

Res0 == [k |-> "none", n |-> 0, req |-> 0, avail |-> 0, flag |-> TRUE, v |-> <<>>, vv |-> <<>>]
LawSrc(s) == IF s.k = "leaf" THEN [k |-> "leaf", ty |-> s.ty, limit |-> 0, d |-> s.d]
             ELSE IF s.k = "chain" THEN [k |-> "chain", limit |-> 0,
                                         a |-> [k |-> "leaf", ty |-> s.a.ty, limit |-> 0, d |-> s.a.d],
                                         b |-> [k |-> "leaf", ty |-> s.b.ty, limit |-> 0, d |-> s.b.d]]
             ELSE s
Ev(op, m, n, val, d, v16, src, out, res, t2) ==
  [i |-> nops + 1, op |-> op, path |-> <<>>, m |-> m, n |-> n, val |-> val, out |-> out, res |-> res, d |-> d, v16 |-> v16,
   src |-> LawSrc(src), gsrc |-> src, tree |-> SProj(t2)]
SrcOf(e) == e.gsrc

\* the law monitor judges the design's step; the program and the predicted observation are
\* recorded for bindings G and D (printed by SEmit, compared with the real sinks step by step)
Check(e) == LET R == MutStep(SProj(dt), e) IN
  /\ badlaws' = badlaws \cup R.V
  /\ ops' = Append(ops, OpRec(e.op, e.m, e.n, <<>>, e.d, e.v16, 77, IF e.op = "put_buf" THEN SrcOf(e) ELSE NoSrc))
  /\ pred' = Append(pred, [out |-> e.out, n |-> e.res.n, tree |-> e.tree])

SStart ==
  /\ phase = "build" /\ Len(stack) = 1
  /\ phase' = "ops" /\ tree0' = stack[1] /\ tree' = stack[1] /\ dt' = stack[1]
  /\ UNCHANGED <<stack, ops, nleaf, badlaws, nops, pred>>

Outcome(r) == IF r.ok THEN "ok" ELSE "panic"

SOp ==
  /\ phase = "ops" /\ nops < MaxOps /\ badlaws = {}
  /\ \/ /\ "remaining_mut" \in OpNames
        /\ Check(Ev("remaining_mut", "", 0, 0, <<>>, <<>>, NoSrc, "ok", [Res0 EXCEPT !.n = SRoom(dt)], dt)) /\ dt' = dt
     \/ /\ "chunk_mut_len" \in OpNames
        /\ Check(Ev("chunk_mut_len", "", 0, 0, <<>>, <<>>, NoSrc, "ok", [Res0 EXCEPT !.n = Min2(SChunkLen(dt), SRoom(dt))], dt)) /\ dt' = dt
     \/ \E k \in (IF "put_slice" \in OpNames THEN {0, 1, 2, 5} ELSE {}) :
          LET d == [i \in 1..k |-> 100 + i + nops]
              r == SPutSlice(dt, d)
          IN Check(Ev("put_slice", "", k, 0, d, <<>>, NoSrc, Outcome(r), Res0, r.t)) /\ dt' = r.t
     \/ \E m \in (IF "put" \in OpNames THEN GetNames ELSE {}), n \in Ns, v \in V16s :
          /\ (~Methods[m].var => n = 0)
          /\ LET s == Encode(m, v, n)
                 r == SPutSlice(dt, s)            \* put_X = put_slice(&n.to_xx_bytes()[..])
             IN Check(Ev("put", m, n, 0, <<>>, v, NoSrc, Outcome(r), Res0, r.t)) /\ dt' = r.t
     \/ \E src \in (IF "put_buf" \in OpNames THEN SrcTrees ELSE {}) :
          LET total == Len(Flat(LawSrc(src)))
              r == IF dt.k = "leaf" /\ ~dt.fixed THEN PutChunks(dt, SrcChunks(src))
                   ELSE IF SRoom(dt) < total THEN [ok |-> FALSE, t |-> dt]
                   ELSE PutChunks(dt, SrcChunks(src))
          IN Check(Ev("put_buf", "", 0, 0, <<>>, <<>>, src, Outcome(r), Res0, r.t)) /\ dt' = r.t
  /\ nops' = nops + 1
  /\ UNCHANGED <<stack, phase, tree0, tree, nleaf>>

SInit == Init /\ dt = [k |-> "none"] /\ badlaws = {} /\ nops = 0 /\ pred = <<>>
SNext == \/ (PushLeaf /\ UNCHANGED <<dt, badlaws, nops, pred>>)
         \/ (MkChain /\ UNCHANGED <<dt, badlaws, nops, pred>>)
         \/ (MkLimit /\ UNCHANGED <<dt, badlaws, nops, pred>>)
         \/ (MkWrap /\ UNCHANGED <<dt, badlaws, nops, pred>>)
         \/ SStart \/ SOp

\* INVARIANT that never fails: prints finished programs with the design's predictions
SEmit == (Emit /\ phase = "ops" /\ nops = MaxOps /\ RandomElement(1..SampleK) = 1) =>
           PrintT(<<"REPLAY", ToJson([side |-> "mut", tree |-> tree0, ops |-> ops, pred |-> pred])>>)

LawsAccept == badlaws = {}
=============================================================================

CONSTANTS
  NT = 2
  Repr = "shared"
  ProgChoices <- MCProgs
  Ord <- MCOrd
INIT Init
NEXT Next
INVARIANTS NoRace NoUseAfterFree FreedExactlyOnce AtMostOneExclusive
CHECK_DEADLOCK FALSE

--------------------------- MODULE AtomicsMonitor ---------------------------
(***************************************************************************)
(* Law monitor for recorded concurrent executions (C05, C06; binding V).   *)
(* It takes every logged event as it comes - atomic operation WITH THE     *)
(* ORDERING THAT WAS ACTUALLY PASSED, allocation, free, buffer read/write, *)
(* spawn/join - maintains vector clocks by the C11 release/acquire rules   *)
(* (release sequences continued by read-modify-writes) and evaluates:      *)
(*   no_race        C06  conflicting accesses (buffer read/write, control  *)
(*                       block access, deallocation) are ordered by        *)
(*                       happens-before                                    *)
(*   no_uaf         C05/C06  nothing touches a freed block                 *)
(*   freed_once     C05  no double free; nothing left at the end           *)
(*   one_exclusive  C05  at most one zero-copy exclusive owner per buffer  *)
(*   reads_original C05  every read sees the original bytes and address    *)
(* It has no opinion on WHICH atomic operations the code performs, so a    *)
(* correct refactoring cannot alarm; a weakened ordering removes an edge   *)
(* from the clocks and the race is reported although x86 ran it "right".   *)
(***************************************************************************)
EXTENDS Integers, Sequences, FiniteSets, TLC, Json, IOUtils

Rec == ndJsonDeserialize(IOEnv.TRACE)

Threads == {0, 1, 2, 3, 99}
ZeroVC == [u \in Threads |-> 0]
Join(a, b) == [u \in Threads |-> IF a[u] >= b[u] THEN a[u] ELSE b[u]]
Leq(a, b) == \A u \in Threads : a[u] <= b[u]

VARIABLES l, clk, rel, mem, excl, pid, run, tainted, nviol, cnt
vars == <<l, clk, rel, mem, excl, pid, run, tainted, nviol, cnt>>

Acq(o) == o \in {"Acquire", "AcqRel", "SeqCst"}
Rls(o) == o \in {"Release", "AcqRel", "SeqCst"}

Init == /\ l = 1 /\ clk = [t \in Threads |-> ZeroVC] /\ rel = [x \in {} |-> ZeroVC]
        /\ mem = [x \in {} |-> 0] /\ excl = [x \in {} |-> {}] /\ pid = -1 /\ run = -1
        /\ tainted = {} /\ nviol = 0 /\ cnt = [x \in {} |-> 0]

RelOf(loc) == IF loc \in DOMAIN rel THEN rel[loc] ELSE ZeroVC
Tick(c, t) == [c EXCEPT ![t][t] = @ + 1]
Bump(c, ks) == [k \in DOMAIN c \cup ks |-> (IF k \in DOMAIN c THEN c[k] ELSE 0) + (IF k \in ks THEN 1 ELSE 0)]

\* block record: live, and the set of accesses [t, e (epoch of t), lo, hi, wr]; the
\* initialisation by the allocating thread is a write of the whole block; atomic accesses to
\* a location inside a control block are recorded as reads of [0, 0) (they conflict with the
\* deallocation only)
Acc(t, e, lo, hi, wr) == [t |-> t, e |-> e, lo |-> lo, hi |-> hi, wr |-> wr]
NewBlk(t, c, size) == [live |-> TRUE, acs |-> {Acc(t, c[t], 0, size, TRUE)}]
NoBlk == [live |-> TRUE, acs |-> {}]
\* access a (by thread a.t at epoch a.e) happens-before the current point of thread t with clock c
HB(a, t, c) == a.t = t \/ a.e <= c[a.t]
Overlap(a, lo, hi) == a.lo < hi /\ lo < a.hi
\* keep one (the latest) record per thread, range and kind
AddAcc(b, a) == [b EXCEPT !.acs = {x \in @ : ~(x.t = a.t /\ x.lo = a.lo /\ x.hi = a.hi /\ x.wr = a.wr)} \cup {a}]

Step(e) ==
  LET t == e.t
      c == clk[t]
  IN
  CASE e.k = "reset" ->
         [clk |-> [u \in Threads |-> IF u = 99 THEN [ZeroVC EXCEPT ![99] = 1] ELSE ZeroVC],
          rel |-> [x \in {} |-> ZeroVC], mem |-> [x \in {} |-> 0], excl |-> [x \in {} |-> {}], V |-> {}]
    [] e.k = "spawn" ->
         [clk |-> Tick([clk EXCEPT ![e.h] = Join(@, clk[99])], 99), rel |-> rel, mem |-> mem, excl |-> excl, V |-> {}]
    [] e.k = "join" ->
         [clk |-> Tick([clk EXCEPT ![99] = Join(@, clk[e.h])], 99), rel |-> rel, mem |-> mem, excl |-> excl, V |-> {}]
    [] e.k = "alloc" ->
         [clk |-> Tick(clk, t), rel |-> rel, mem |-> (e.id :> NewBlk(t, c, e.size)) @@ mem, excl |-> excl, V |-> {}]
    [] e.k = "free" ->
         IF e.id \notin DOMAIN mem THEN [clk |-> Tick(clk, t), rel |-> rel, mem |-> mem, excl |-> excl, V |-> {}]
         ELSE LET b == mem[e.id]
                  ordered == \A a \in b.acs : HB(a, t, c)
              IN [clk |-> Tick(clk, t), rel |-> rel, mem |-> [mem EXCEPT ![e.id].live = FALSE], excl |-> excl,
                  V |-> (IF ~b.live THEN {<<"C05", "freed_once">>, <<"C03", "freed_once">>, <<"C02", "freed_once">>} ELSE {})
                        \* a deallocation that is not ordered after another thread's accesses: a data
                        \* race (C06); an execution in which C11 lets that thread read released storage
                        \* (C05, quantified over all outcomes the memory model allows); a release that
                        \* is not "after the last handle is gone" in the happens-before sense (C03)
                        \cup (IF b.live /\ ~ordered THEN {<<"C06", "no_race">>, <<"C05", "reads_original_weak">>, <<"C03", "release_after_use">>, <<"C02", "free_ordered">>} ELSE {})]
    [] e.k = "bad_free" ->
         [clk |-> Tick(clk, t), rel |-> rel, mem |-> mem, excl |-> excl, V |-> {<<"C05", "freed_once">>, <<"C03", "freed_once">>, <<"C02", "freed_once">>}]
    [] e.k = "atomic" /\ e.op # "get_mut" ->
         LET isload == e.op = "load" \/ (e.op = "cas" /\ ~e.ok)
             o == IF e.op = "cas" /\ ~e.ok THEN e.ordf ELSE e.ord
             c1 == IF Acq(o) THEN Join(c, RelOf(e.loc)) ELSE c
             rel2 == IF isload THEN rel
                     ELSE IF e.op = "store" THEN (e.loc :> (IF Rls(o) THEN c1 ELSE ZeroVC)) @@ rel
                     ELSE (e.loc :> (IF Rls(o) THEN Join(RelOf(e.loc), c1) ELSE RelOf(e.loc))) @@ rel
             inblk == e.blk > 0 /\ e.blk \in DOMAIN mem
             b == IF inblk THEN mem[e.blk] ELSE NoBlk
         IN [clk |-> Tick([clk EXCEPT ![t] = c1], t), rel |-> rel2,
             mem |-> IF inblk THEN [mem EXCEPT ![e.blk] = AddAcc(@, Acc(t, c[t], 0, 0, FALSE))] ELSE mem,
             excl |-> excl,
             V |-> (IF inblk /\ ~b.live THEN {<<"C05", "no_uaf">>, <<"C06", "no_uaf">>, <<"C03", "no_uaf">>, <<"C02", "no_uaf">>} ELSE {})
                   \* touching a control block whose initialisation does not happen-before
                   \* (a data race on the count itself: C11 then allows any outcome for the count, so
                   \* "freed exactly once, after the last handle" is not guaranteed in that execution)
                   \cup (IF inblk /\ b.live /\ ~(\A a \in b.acs : (a.wr /\ a.hi > a.lo) => HB(a, t, c1))
                         THEN {<<"C06", "no_race">>, <<"C05", "count_init_unordered">>} ELSE {})]
    [] e.k = "read" ->
         LET known == e.id > 0 /\ e.id \in DOMAIN mem
             b == IF known THEN mem[e.id] ELSE NoBlk
         IN [clk |-> Tick(clk, t), rel |-> rel,
             mem |-> IF known THEN [mem EXCEPT ![e.id] = AddAcc(@, Acc(t, c[t], e.loc, e.size, FALSE))] ELSE mem, excl |-> excl,
             V |-> (IF ~e.dok \/ ~e.aok THEN {<<"C05", "reads_original">>} ELSE {})
                   \* the bytes a conversion copied out are not the handle's bytes: the copy used the
                   \* storage after it was released to the allocator or to a new exclusive owner
                   \cup (IF ~e.dok /\ e.note = "converted" THEN {<<"C06", "copy_after_release">>, <<"C03", "copy_after_release">>} ELSE {})
                   \cup (IF known /\ ~b.live THEN {<<"C05", "no_uaf">>, <<"C06", "no_uaf">>, <<"C03", "no_uaf">>, <<"C02", "no_uaf">>} ELSE {})
                   \* a buffer read racing with a write of the new exclusive owner: besides being a data
                   \* race (C06) it is an execution in which C11 lets the reader see other bytes (C05)
                   \cup (IF known /\ b.live /\ ~(\A a \in b.acs : (a.wr /\ Overlap(a, e.loc, e.size)) => HB(a, t, c))
                         THEN {<<"C06", "no_race">>, <<"C05", "reads_original_weak">>} ELSE {})]
    [] e.k = "write" ->
         LET known == e.id > 0 /\ e.id \in DOMAIN mem
             b == IF known THEN mem[e.id] ELSE NoBlk
             ordered == \A a \in b.acs : Overlap(a, e.loc, e.size) => HB(a, t, c)
         IN [clk |-> Tick(clk, t), rel |-> rel,
             mem |-> IF known THEN [mem EXCEPT ![e.id] = AddAcc(@, Acc(t, c[t], e.loc, e.size, TRUE))] ELSE mem, excl |-> excl,
             V |-> (IF known /\ ~b.live THEN {<<"C05", "no_uaf">>, <<"C06", "no_uaf">>, <<"C03", "no_uaf">>, <<"C02", "no_uaf">>} ELSE {})
                   \cup (IF known /\ b.live /\ ~ordered THEN {<<"C06", "no_race">>, <<"C05", "reads_original_weak">>} ELSE {})]
    \* parties (handles, by their harness id) that obtained the block exclusively without copying and
    \* are still there: the same handle growing in place twice is one party, and a handle that was
    \* dropped (`unexcl`) may hand the buffer on to the next sole owner
    [] e.k = "excl" ->
         LET s == (IF e.id \in DOMAIN excl THEN excl[e.id] ELSE {}) \cup {e.h} IN
         [clk |-> clk, rel |-> rel, mem |-> mem, excl |-> (e.id :> s) @@ excl,
          V |-> IF Cardinality(s) > 1 THEN {<<"C05", "one_exclusive">>} ELSE {}]
    [] e.k = "unexcl" ->
         [clk |-> clk, rel |-> rel, mem |-> mem, excl |-> [b \in DOMAIN excl |-> excl[b] \ {e.h}], V |-> {}]
    [] e.k = "end" ->
         [clk |-> clk, rel |-> rel, mem |-> mem, excl |-> excl,
          V |-> IF e.size > 0 THEN {<<"C05", "freed_once">>, <<"C03", "freed_once">>} ELSE {}]
    \* an operation of a program (all of them are in contract) panicked: the handles "may be cloned,
    \* sliced, read, converted and dropped concurrently" -- not in this interleaving
    [] e.k = "op_panic" ->
         [clk |-> clk, rel |-> rel, mem |-> mem, excl |-> excl, V |-> {<<"C05", "op_returns">>}]
    [] e.k \in {"redzone", "poison"} ->
         [clk |-> clk, rel |-> rel, mem |-> mem, excl |-> excl, V |-> {<<"C05", "no_uaf">>}]
    [] OTHER -> [clk |-> clk, rel |-> rel, mem |-> mem, excl |-> excl, V |-> {}]

Next ==
  /\ l <= Len(Rec)
  /\ LET e == Rec[l]
         R == Step(e)
         newV == {v \in R.V : v[1] \notin tainted}     \* first violation per property and program
         report == newV # {}
     IN /\ clk' = R.clk /\ rel' = R.rel /\ mem' = R.mem /\ excl' = R.excl
        /\ pid' = IF e.k = "reset" THEN e.id ELSE pid
        /\ run' = IF e.k = "reset" THEN e.size ELSE run
        /\ tainted' = IF e.k = "reset" THEN {} ELSE (tainted \cup {v[1] : v \in R.V})
        /\ nviol' = nviol + (IF report THEN 1 ELSE 0)
        /\ cnt' = Bump(cnt, {e.k} \cup (IF e.k = "atomic" THEN {e.op} ELSE {}))
        /\ (report => PrintT(<<"LAWVIOL", pid, run, e.k, newV>>))
        /\ (l = Len(Rec) => PrintT(<<"DONE", Len(Rec), nviol', cnt'>>))
  /\ l' = l + 1
=============================================================================

----------------------------- MODULE HostileTrace -----------------------------
(***************************************************************************)
(* C17 law on recorded fault-injection runs (binding V): whatever a        *)
(* misbehaving Buf / AsRef / Iterator answers, a crate entry point may     *)
(* panic or return wrong data, but                                         *)
(*   hostile_safe        it ends by returning or by a panic (no abort /    *)
(*                       signal), the bytes it produced stem from memory   *)
(*                       it was given (no out-of-bounds read), the view it *)
(*                       built is one the environment really offered       *)
(*   no_guard_damage     no write outside the destination (guard bytes,    *)
(*                       red zones, poison), no free with a wrong layout,  *)
(*                       no double free                                    *)
(*   ledger_empty_at_end nothing the crate allocated is leaked after       *)
(*                       unwinding                                         *)
(***************************************************************************)
EXTENDS Integers, Sequences, FiniteSets, TLC, Json, IOUtils
Rec == ndJsonDeserialize(IOEnv.TRACE)
VARIABLES l, nviol, cnt
Bump(c, k) == [x \in DOMAIN c \cup {k} |-> (IF x \in DOMAIN c THEN c[x] ELSE 0) + (IF x = k THEN 1 ELSE 0)]
Init == l = 1 /\ nviol = 0 /\ cnt = [x \in {} |-> 0]
\* consumers whose destination is a BytesMut (C04: its region stays in bounds and exclusive)
BMConsumers == {"bytesmut_put", "bytesmut_put_split", "bytesmut_put_keep", "bytesmut_put_keep_arc", "bytesmut_extend_iter", "bytesmut_from_iter",
                "bytesmut_extend_iter_panic", "bytesmut_extend_iter_panic_off", "bytesmut_extend_iter_panic_arc"}
\* an out-of-bounds access, a wrong / double free or a crash is a C02 violation whoever provoked it
\* with safe code; for a BytesMut destination it is a C04 violation as well
Mem(e, law) == {<<"C17", law>>, <<"C02", law>>} \cup (IF e.consumer \in BMConsumers THEN {<<"C04", law>>} ELSE {})
Laws(e) ==
  (IF e.out \notin {"ok", "panic"} \/ ~e.clean THEN Mem(e, "hostile_safe") ELSE {})
  \cup (IF ~e.consistent THEN {<<"C17", "hostile_safe">>} ELSE {})
  \cup (IF e.bad_mem # 0 \/ ~e.guard THEN Mem(e, "no_guard_damage") ELSE {})
  \cup (IF e.out \in {"ok", "panic"} /\ e.live # 0 THEN {<<"C17", "ledger_empty_at_end">>} ELSE {})
Next ==
  /\ l <= Len(Rec)
  /\ LET e == Rec[l] V == Laws(e) IN
     /\ nviol' = nviol + (IF V # {} THEN 1 ELSE 0)
     /\ cnt' = Bump(Bump(cnt, e.consumer), e.out)
     /\ (V # {} => PrintT(<<"LAWVIOL", e.pid, l, e.consumer, V>>))
     /\ (l = Len(Rec) => PrintT(<<"DONE", Len(Rec), nviol', cnt'>>))
  /\ l' = l + 1
=============================================================================

------------------------------- MODULE BufLaws -------------------------------
(***************************************************************************)
(* Law monitor for cursors (Buf) and sinks (BufMut): properties C09, C10,  *)
(* C11, C12.  Pure operators; BufTrace.tla runs them over recorded traces, *)
(* BufTree.tla over the design model of the adapters.                      *)
(*                                                                         *)
(* A cursor is a tree: leaves hold the bytes they still have to deliver,   *)
(* Chain/Take/&mut/Box nodes combine them.  The meaning of a tree is one   *)
(* flat byte sequence, Flat(t).  Consuming n bytes from the outermost node *)
(* must consume them from the leaves in order and lower every Take limit   *)
(* on the way by n (Consume).  A sink is the dual: leaves collect the      *)
(* bytes written so far and know their room; WriteTree appends.            *)
(***************************************************************************)
EXTENDS Integers, Sequences, FiniteSets, TLC, BufMethods

CONSTANTS MAXW, IMAXW, NativeLE

Take(s, n) == SubSeq(s, 1, n)
Drop(s, n) == SubSeq(s, n + 1, Len(s))
Min2(a, b) == IF a <= b THEN a ELSE b
IsPrefix(p, s) == Len(p) <= Len(s) /\ p = Take(s, Len(p))
Rev(s) == [i \in 1..Len(s) |-> s[Len(s) + 1 - i]]
RECURSIVE Concat(_)
Concat(ss) == IF ss = <<>> THEN <<>> ELSE Head(ss) \o Concat(Tail(ss))

(***************************************************************************)
(* Cursor trees                                                            *)
(***************************************************************************)
RECURSIVE Flat(_), Consume(_, _), HasAdapter(_), SetLim(_, _, _)

Flat(t) ==
  CASE t.k = "leaf" -> t.d
    [] t.k = "chain" -> Flat(t.a) \o Flat(t.b)
    [] t.k = "take" -> LET f == Flat(t.t) IN Take(f, Min2(Len(f), t.limit))
    [] t.k \in {"ref", "box"} -> Flat(t.t)
    [] OTHER -> <<>>

Consume(t, n) ==
  CASE t.k = "leaf" -> [t EXCEPT !.d = Drop(@, n)]
    [] t.k = "chain" ->
         LET la == Len(Flat(t.a)) IN
         IF n <= la THEN [t EXCEPT !.a = Consume(@, n)]
         ELSE [t EXCEPT !.a = Consume(@, la), !.b = Consume(@, n - la)]
    [] t.k = "take" -> [t EXCEPT !.t = Consume(@, n), !.limit = @ - n]
    [] t.k \in {"ref", "box"} -> [t EXCEPT !.t = Consume(@, n)]
    [] OTHER -> t

HasAdapter(t) ==
  CASE t.k \in {"chain", "take", "limit"} -> TRUE
    [] t.k \in {"ref", "box"} -> HasAdapter(t.t)
    [] OTHER -> FALSE

\* path: sequence of child indices (0 = first / only child, 1 = second child of a chain)
SetLim(t, path, v) ==
  IF path = <<>> THEN (IF t.k \in {"take", "limit"} THEN [t EXCEPT !.limit = v] ELSE t)
  ELSE CASE t.k = "chain" -> IF Head(path) = 0 THEN [t EXCEPT !.a = SetLim(@, Tail(path), v)]
                             ELSE [t EXCEPT !.b = SetLim(@, Tail(path), v)]
         [] t.k \in {"take", "limit", "ref", "box"} -> [t EXCEPT !.t = SetLim(@, Tail(path), v)]
         [] OTHER -> t

\* the node at `path` is advanced directly (through get_mut / first_mut / last_mut), behind the back
\* of the adapters above it: those keep their own bookkeeping (a Take keeps its limit)
RECURSIVE AdvAt(_, _, _), SubAt(_, _), NodePaths(_)
AdvAt(t, path, n) ==
  IF path = <<>> THEN Consume(t, n)
  ELSE CASE t.k = "chain" -> IF Head(path) = 0 THEN [t EXCEPT !.a = AdvAt(@, Tail(path), n)]
                             ELSE [t EXCEPT !.b = AdvAt(@, Tail(path), n)]
         [] t.k \in {"take", "limit", "ref", "box"} -> [t EXCEPT !.t = AdvAt(@, Tail(path), n)]
         [] OTHER -> t
SubAt(t, path) ==
  IF path = <<>> THEN t
  ELSE CASE t.k = "chain" -> IF Head(path) = 0 THEN SubAt(t.a, Tail(path)) ELSE SubAt(t.b, Tail(path))
         [] t.k \in {"take", "limit", "ref", "box"} -> SubAt(t.t, Tail(path))
         [] OTHER -> t
NodePaths(t) ==
  CASE t.k = "leaf" -> {<<>>}
    [] t.k = "chain" -> {<<>>} \cup {<<0>> \o p : p \in NodePaths(t.a)} \cup {<<1>> \o p : p \in NodePaths(t.b)}
    [] OTHER -> {<<>>} \cup {<<0>> \o p : p \in NodePaths(t.t)}

(***************************************************************************)
(* Typed values: 16 big-endian bytes, sign- or zero-extended               *)
(***************************************************************************)
Width(m, n) == IF Methods[m].var THEN n ELSE Methods[m].size
BigEndian(m, bytes) == IF Methods[m].ord = "be" \/ (Methods[m].ord = "ne" /\ ~NativeLE) THEN bytes ELSE Rev(bytes)
Decode(m, bytes) ==
  LET be == BigEndian(m, bytes)
      fill == IF Methods[m].signed /\ Len(be) > 0 /\ be[1] >= 128 THEN 255 ELSE 0
  IN [i \in 1..(16 - Len(be)) |-> fill] \o be
\* bytes appended by put_X(v) where v is given as 16 big-endian bytes
Encode(m, v16, n) == BigEndian(m, SubSeq(v16, 17 - Width(m, n), 16))

\* valid UTF-8 as far as this module knows it: ASCII and two-byte characters
RECURSIVE Utf8Known(_)
Utf8Known(s) ==
  IF s = <<>> THEN TRUE
  ELSE IF s[1] < 128 THEN Utf8Known(Tail(s))
  ELSE IF s[1] >= 194 /\ s[1] <= 223 /\ Len(s) >= 2 /\ s[2] >= 128 /\ s[2] <= 191 THEN Utf8Known(SubSeq(s, 3, Len(s)))
  ELSE FALSE

(***************************************************************************)
(* Cursor laws.  Returns [T |-> expected/adopted next tree, V |-> laws]    *)
(***************************************************************************)
P(adapt, law9, law12) == IF adapt THEN {<<"C09", law9>>, <<"C12", law12>>} ELSE {<<"C09", law9>>}

\* compare the observed tree with the expected one: a wrong flat sequence is a C09 matter,
\* right bytes with wrong inner bookkeeping (limits, which leaf was advanced) a C12 one
TreeLaws(exp, obs, law) ==
  IF obs = exp THEN {}
  ELSE IF Flat(obs) # Flat(exp) THEN P(HasAdapter(exp), law, "adapter_exposes")
  ELSE {<<"C12", "adapter_inner_advanced">>}

BufStep(T, e) ==
  LET F == Flat(T)
      len == Len(F)
      n == e.n
      ok == e.out = "ok"
      T2 == e.tree
      ad == HasAdapter(T)
      same == TreeLaws(T, T2, "unchanged")
      consumed(k) == TreeLaws(Consume(T, k), T2, "advance_drop")
      bad(c, l) == IF c THEN {} ELSE P(ad, l, "adapter_exposes")
  IN
  CASE e.op = "remaining" -> [V |-> bad(ok /\ e.res.n = len, "rem_eq") \cup same]
    [] e.op = "has_remaining" -> [V |-> bad(ok /\ e.res.flag = (len > 0), "rem_eq") \cup same]
    [] e.op \in {"chunk", "fill_buf"} ->
         [V |-> bad(ok /\ IsPrefix(e.res.v, F) /\ (e.res.v = <<>> => len = 0) /\ e.res.flag, "chunk_prefix") \cup same]
    [] e.op \in {"advance", "consume"} ->
         IF n >= 0 /\ n <= len THEN [V |-> bad(ok, "advance_ok") \cup (IF ok THEN consumed(n) ELSE {})]
         ELSE [V |-> bad(~ok, "advance_panics")]
    [] e.op = "chunks_vectored" ->
         LET cnt == e.res.n
             cat == Concat(e.res.vv)
         IN [V |-> bad(ok /\ cnt <= n /\ cnt = Len(e.res.vv), "vectored_count")
                   \cup bad(~ok \/ IsPrefix(cat, F), "vectored_prefix")
                   \cup bad(~ok \/ ~(len > 0 /\ n > 0) \/ cat # <<>>, "vectored_nonempty")
                   \cup bad(~ok \/ e.res.flag, "vectored_tail")
                   \cup same]
    [] e.op \in {"copy_to_slice", "copy_to_bytes"} ->
         IF n >= 0 /\ n <= len THEN [V |-> bad(ok /\ e.res.v = Take(F, n), "copy_exact") \cup (IF ok THEN consumed(n) ELSE {})]
         \* a copying read that fails delivers nothing: nothing went through the cursor (or through
         \* the adapters), so every node is where it was (the counterpart of failed_write_untouched)
         ELSE [V |-> bad(~ok, "copy_panics") \cup (IF ~ok /\ T2.k # "gone" THEN TreeLaws(T, T2, "failed_read_untouched") ELSE {})]
    [] e.op = "try_copy_to_slice" ->
         IF n >= 0 /\ n <= len THEN [V |-> bad(ok /\ e.res.k = "ok" /\ e.res.v = Take(F, n), "copy_exact") \cup (IF ok THEN consumed(n) ELSE {})]
         ELSE [V |-> bad(ok /\ e.res.k = "err" /\ e.res.req = n /\ e.res.avail = len, "copy_err") \cup same]
    [] e.op = "get" ->
         LET w == Width(e.m, n)
             try == Methods[e.m].try
             c(x, l) == IF x THEN {} ELSE {<<"C10", l>>}
         IN IF w > 8 /\ Methods[e.m].var THEN [V |-> {}]       \* nbytes > 8: outside the property
            ELSE IF w <= len
            THEN [V |-> c(ok /\ (try => e.res.k = "ok"), "get_ok")
                        \cup c(~ok \/ e.res.v = Decode(e.m, Take(F, w)), "get_value")
                        \cup (IF ok /\ (try => e.res.k = "ok") /\ T2 # Consume(T, w) THEN {<<"C10", "get_advances">>} ELSE {})]
            ELSE IF try THEN [V |-> c(ok /\ e.res.k = "err" /\ e.res.req = w /\ e.res.avail = len, "try_err_exact")
                                    \cup (IF T2 # T THEN {<<"C10", "try_err_untouched">>} ELSE {})]
            ELSE [V |-> c(~ok, "get_panics") \cup (IF ~ok /\ T2.k # "gone" /\ T2 # T THEN {<<"C10", "get_panics_untouched">>} ELSE {})]
    [] e.op = "set_limit" -> [V |-> IF T2 = SetLim(T, e.path, n) THEN {} ELSE {<<"C12", "set_limit">>}]
    [] e.op = "advance_at" ->
         IF n <= Len(Flat(SubAt(T, e.path)))
         THEN [V |-> IF ok /\ T2 = AdvAt(T, e.path, n) THEN {} ELSE {<<"C12", "inner_advance">>, <<"C09", "advance_drop">>}]
         ELSE [V |-> {}]
    \* Read::read_to_string: a remaining sequence that is valid UTF-8 is delivered completely, as one
    \* text, wherever the chunk boundaries fall; for other contents the law is silent
    [] e.op = "read" /\ e.m = "to_string" ->
         IF Utf8Known(F)
         THEN [V |-> (IF ok /\ e.res.flag /\ e.res.n = len /\ e.res.v = F THEN {} ELSE {<<"C12", "io_min">>})
                     \cup (IF ok THEN TreeLaws(Consume(T, len), T2, "advance_drop") ELSE {})]
         ELSE [V |-> {}]
    [] e.op = "read" /\ e.m # "to_string" ->
         LET k == Min2(n, len) IN
         [V |-> (IF ok /\ e.res.flag /\ e.res.n = k /\ e.res.v = Take(F, k) THEN {} ELSE {<<"C12", "io_min">>})
                \cup (IF ok THEN TreeLaws(Consume(T, k), T2, "advance_drop") ELSE {})]
    [] e.op = "into_iter" ->
         [V |-> bad(ok /\ e.res.v = F /\ e.res.n = len /\ e.res.flag, "iter_exact") \cup (IF ok THEN consumed(len) ELSE {})]
    \* Iterator::nth(n) and what is built on it (skip, step_by): the (n+1)-th byte or nothing,
    \* exactly min(n + 1, len) bytes consumed, never a panic
    [] e.op = "iter_nth" ->
         LET k == Min2(n + 1, len) IN
         [V |-> bad(ok /\ e.res.v = (IF n < len THEN <<F[n + 1]>> ELSE <<>>), "iter_exact") \cup (IF ok THEN consumed(k) ELSE {})]
    [] OTHER -> [V |-> {}]

(***************************************************************************)
(* Sink trees                                                              *)
(***************************************************************************)
RECURSIVE Room(_), WriteTree(_, _), GuardsOk(_), Written(_), AllFixed(_)
FILL == 51      \* initial content of the harness' fixed targets (0x33)
AllFixed(t) ==
  CASE t.k = "leaf" -> t.fixed
    [] t.k = "chain" -> AllFixed(t.a) /\ AllFixed(t.b)
    [] t.k \in {"limit", "ref", "box"} -> AllFixed(t.t)
    [] OTHER -> FALSE

Room(t) ==
  CASE t.k = "leaf" -> t.room
    [] t.k = "chain" -> Min2(MAXW, Room(t.a) + Room(t.b))
    [] t.k = "limit" -> Min2(t.limit, Room(t.t))
    [] t.k \in {"ref", "box"} -> Room(t.t)
    [] OTHER -> 0

WriteTree(t, s) ==
  CASE t.k = "leaf" -> [t EXCEPT !.w = @ \o s, !.room = @ - Len(s)]
    [] t.k = "chain" ->
         LET k == Min2(Room(t.a), Len(s)) IN
         [t EXCEPT !.a = WriteTree(@, Take(s, k)), !.b = WriteTree(@, Drop(s, k))]
    [] t.k = "limit" -> [t EXCEPT !.t = WriteTree(@, s), !.limit = @ - Len(s)]
    [] t.k \in {"ref", "box"} -> [t EXCEPT !.t = WriteTree(@, s)]
    [] OTHER -> t

GuardsOk(t) ==
  CASE t.k = "leaf" -> t.guard
    [] t.k = "chain" -> GuardsOk(t.a) /\ GuardsOk(t.b)
    [] t.k \in {"limit", "ref", "box"} -> GuardsOk(t.t)
    [] OTHER -> TRUE

Written(t) ==
  CASE t.k = "leaf" -> t.w
    [] t.k = "chain" -> Written(t.a) \o Written(t.b)
    [] t.k \in {"limit", "ref", "box"} -> Written(t.t)
    [] OTHER -> <<>>

SinkTreeLaws(exp, obs) ==
  IF obs = exp THEN {}
  ELSE IF Written(obs) # Written(exp) THEN {<<"C11", "put_appends">>} \cup (IF HasAdapter(exp) THEN {<<"C12", "adapter_orders">>} ELSE {})
  ELSE IF HasAdapter(exp) THEN {<<"C11", "room_exact">>, <<"C12", "adapter_inner_advanced">>} ELSE {<<"C11", "room_exact">>}

\* a write of the byte sequence s
\* (through an adapter the same facts are C12's: "limit(n) accepts at most n bytes", "chain(a, b)
\* writes all of a and then b")
WriteLaws(T, e, s) ==
  LET ok == e.out = "ok" T2 == e.tree
      W(l) == IF HasAdapter(T) THEN {<<"C11", l>>, <<"C12", "adapter_bounds">>} ELSE {<<"C11", l>>}
  IN
  IF Len(s) <= Room(T)
  THEN (IF ok THEN SinkTreeLaws(WriteTree(T, s), T2) ELSE W("fitting_write_ok"))
  ELSE (IF ok THEN W("overflow_panics")
        \* a write that does not fit writes nothing: the target still has its room and contents
        ELSE IF T2.k = "gone" \/ (Room(T2) = Room(T) /\ Written(T2) = Written(T)) THEN {} ELSE W("failed_write_untouched"))

MutStep(T, e) ==
  LET n == e.n
      ok == e.out = "ok"
      T2 == e.tree
      room == Room(T)
      g == IF GuardsOk(T2) THEN {} ELSE {<<"C11", "no_guard_damage">>}
      adp == IF HasAdapter(T) THEN {<<"C12", "adapter_room">>} ELSE {}
  IN
  CASE e.op = "put" ->
         IF Methods[e.m].var /\ n > 8 THEN [V |-> g] ELSE [V |-> g \cup WriteLaws(T, e, Encode(e.m, e.v16, n))]
    [] e.op = "put_slice" -> [V |-> g \cup WriteLaws(T, e, e.d)]
    [] e.op = "put_bytes" -> [V |-> g \cup WriteLaws(T, e, [i \in 1..n |-> e.val])]
    [] e.op = "put_buf" -> [V |-> g \cup WriteLaws(T, e, Flat(e.src))]
    [] e.op = "manual" ->
         [V |-> g \cup (IF e.res.flag THEN {} ELSE {<<"C11", "uninit_index_checked">>})
                  \cup (IF ok /\ e.res.n <= Len(e.d) /\ e.res.n <= room /\ (e.res.n = 0 => (room = 0 \/ e.d = <<>>))
                        THEN SinkTreeLaws(WriteTree(T, Take(e.d, e.res.n)), T2) ELSE {<<"C11", "chunk_mut_bounds">>})]
    \* a wrong answer of a Chain / Limit about its room is also a bookkeeping error of the adapter (C12)
    [] e.op = "chunk_mut_len" ->
         [V |-> g \cup (IF ok /\ e.res.n <= room /\ (e.res.n = 0 => room = 0) THEN {} ELSE {<<"C11", "chunk_mut_bounds">>} \cup adp)
                  \cup (IF ok THEN SinkTreeLaws(T, T2) ELSE {})]
    [] e.op = "remaining_mut" ->
         [V |-> g \cup (IF ok /\ e.res.n = room THEN {} ELSE {<<"C11", "room_exact">>} \cup adp) \cup SinkTreeLaws(T, T2)]
    [] e.op = "has_remaining_mut" ->
         [V |-> g \cup (IF ok /\ e.res.flag = (room > 0) THEN {} ELSE {<<"C11", "room_exact">>} \cup adp) \cup SinkTreeLaws(T, T2)]
    [] e.op = "write" ->
         LET k == Min2(Len(e.d), room)
             \* write: Ok(k).  write_all / write_fmt (m = "all", "fmt"): the k bytes that fit are
             \* transferred; Ok iff everything fitted
             res == IF e.m \in {"all", "fmt"} THEN e.res.flag = (Len(e.d) <= room) /\ e.res.n = k ELSE e.res.flag /\ e.res.n = k
         IN
         [V |-> g \cup (IF ok /\ res THEN {} ELSE {<<"C12", "io_min">>})
                  \cup (IF ok THEN SinkTreeLaws(WriteTree(T, Take(e.d, k)), T2) ELSE {})]
    [] e.op = "advance_mut" ->
         IF n <= room THEN [V |-> g \cup (IF ok THEN SinkTreeLaws(WriteTree(T, [i \in 1..n |-> FILL]), T2) ELSE {<<"C11", "fitting_write_ok">>})]
         ELSE [V |-> g]
    [] e.op = "set_limit" -> [V |-> g \cup (IF T2 = SetLim(T, e.path, n) THEN {} ELSE {<<"C12", "set_limit">>})]
    [] OTHER -> [V |-> g]

\* readback: reading with the matching getter what the putter wrote returns the value
\* (a theorem about the two codecs of this specification, checked exhaustively by TLC in
\* BufCodec.tla; with it C11's "reading back" clause follows from put_appends + get_value)
RoundTrip(pm, gm, v16, n) ==
  LET w == Width(pm, n)
      trunc == SubSeq(v16, 17 - w, 16)
      fill == IF Methods[gm].signed /\ w > 0 /\ trunc[1] >= 128 THEN 255 ELSE 0
  IN Decode(gm, Encode(pm, v16, n)) = [i \in 1..(16 - w) |-> fill] \o trunc
=============================================================================

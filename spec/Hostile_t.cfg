CONSTANTS
  MAXW = 1073741823
  R = 3
  MaxCalls = 6
  Consumers = {"bmput", "vecput", "defput", "trycopy", "getx", "ctb", "reader", "iter", "takevec", "chainvec"}
  Emit = TRUE
  SampleK = 200
  Mutation = "none"
INIT Init
NEXT Next
INVARIANTS NoOOB EmitDone
CHECK_DEADLOCK FALSE

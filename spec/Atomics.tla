------------------------------- MODULE Atomics -------------------------------
(***************************************************************************)
(* Design model of the reference-counting protocols of bytes.rs and        *)
(* bytes_mut.rs under the C11 release/acquire memory model (C05, C06).     *)
(*                                                                         *)
(* Each API operation is a sequence of atomic steps, one per atomic        *)
(* instruction / buffer access / deallocation of the code.  The memory     *)
(* model is operational: per atomic location a modification-order history  *)
(* of messages [val, rel]; per thread a view (index per location) and a    *)
(* vector clock; an acquire read joins the message's release knowledge, a  *)
(* release RMW joins the thread's knowledge into the message (RMWs         *)
(* continue release sequences); NON-RMW LOADS MAY READ ANY MESSAGE NOT     *)
(* OLDER THAN THE THREAD'S VIEW (stale relaxed loads).  Buffer memory and  *)
(* control blocks are non-atomic regions with a set of last accesses;      *)
(* conflicting accesses not ordered by happens-before raise `race`.        *)
(*                                                                         *)
(* The ordering used at every site is the constant Ord, SUPPLIED FROM THE  *)
(* CODE: the check driver extracts it from recorded traces (binding D).    *)
(***************************************************************************)
EXTENDS Integers, Sequences, FiniteSets, TLC

CONSTANTS
  NT,      \* number of model threads
  Repr,    \* "shared" (bytes.rs Shared) | "sharedm" (bytes_mut.rs Shared) | "prom" (promotable, unpromoted, via one &Bytes)
           \* | "owner" (from_owner: the buffer is the owner's memory, freed by the owner's Drop)
  ProgChoices,  \* set of program tuples; Progs[t] is the operation sequence of thread t
  Ord           \* site |-> ordering

Thr == 1..NT
Main == 0
AllT == 0..NT
Ctls == 0..NT                 \* control block 0 exists initially (shared/sharedm); block t is created by thread t (prom)
VEC == -1                     \* value of `data` while the handle is unpromoted

Acq(o) == o \in {"Acquire", "AcqRel", "SeqCst"}
Rls(o) == o \in {"Release", "AcqRel", "SeqCst"}

DATA == <<"data", 0>>
BUF == <<"buf", 0>>
Locs == {DATA} \cup {<<"rc", c>> : c \in Ctls}
ZeroVC == [u \in AllT |-> 0]
ZeroPos == [x \in Locs |-> 1]
K0 == [vc |-> ZeroVC, pos |-> ZeroPos]
JoinK(a, b) == [vc |-> [u \in AllT |-> IF a.vc[u] >= b.vc[u] THEN a.vc[u] ELSE b.vc[u]],
                pos |-> [x \in Locs |-> IF a.pos[x] >= b.pos[x] THEN a.pos[x] ELSE b.pos[x]]]

VARIABLES
  Progs,   \* the program chosen for this behaviour (never changes)
  hist,    \* hist[x]: sequence of messages [val, rel]
  K,       \* K[t]: knowledge (vector clock + per-location view) of thread t
  pc,      \* pc[t] = <<op index, micro step>>
  reg,     \* reg[t]: scratch register of the running operation
  own,     \* own[t]: sequence of handles (control block ids, or VEC) owned by thread t
  region,  \* non-atomic regions "buf", <<"ctl", c>>: [live, acs]
  excl, race, uaf, dfree, sdata

vars == <<Progs, hist, K, pc, reg, own, region, excl, race, uaf, dfree, sdata>>

Regions == {BUF} \cup {<<"ctl", c>> : c \in Ctls}
Acc(t, e, wr) == [t |-> t, e |-> e, wr |-> wr]
HB(a, t) == a.t = t \/ a.e <= K[t].vc[a.t]

Tick(k, t) == [k EXCEPT !.vc[t] = @ + 1]

\* ---------------------------------------------------------------- initial state
InitRc == IF Repr = "prom" THEN 0 ELSE NT          \* every thread owns one handle of block 0
Init ==
  /\ Progs \in ProgChoices
  /\ hist = [x \in Locs |->
               IF x = DATA THEN <<[val |-> IF Repr = "prom" THEN VEC ELSE 0, rel |-> K0]>>
               ELSE IF x = <<"rc", 0>> THEN <<[val |-> InitRc, rel |-> K0]>>
               ELSE <<[val |-> 0, rel |-> K0]>>]
  /\ K = [t \in AllT |-> [vc |-> [u \in AllT |-> IF u = Main THEN 1 ELSE 0], pos |-> ZeroPos]]   \* spawn: children know main's past
  /\ pc = [t \in Thr |-> <<1, 0>>]
  /\ reg = [t \in Thr |-> 0]
  /\ own = [t \in Thr |-> IF Repr = "prom" THEN <<>> ELSE <<0>>]
  /\ region = [r \in Regions |->
                 IF r = BUF \/ (r = <<"ctl", 0>> /\ Repr # "prom")
                 THEN [live |-> TRUE, acs |-> {Acc(Main, 1, TRUE)}]
                 ELSE [live |-> FALSE, acs |-> {}]]
  /\ excl = 0 /\ race = FALSE /\ uaf = FALSE /\ dfree = FALSE
  /\ sdata = "main"       \* who still holds the shared &Bytes (main drops it after the joins)

\* ---------------------------------------------------------------- memory model
Last(x) == Len(hist[x])

\* a load by t of location x with ordering o reading message i
LoadAt(t, x, o, i) ==
  LET m == hist[x][i]
      k1 == [K[t] EXCEPT !.pos[x] = i]
  IN IF Acq(o) THEN JoinK(k1, m.rel) ELSE k1

\* an RMW by t on x: reads the last message, appends val
RmwK(t, x, o) ==
  LET m == hist[x][Last(x)]
      k1 == [K[t] EXCEPT !.pos[x] = Last(x) + 1]
  IN IF Acq(o) THEN JoinK(k1, m.rel) ELSE k1
RmwMsg(t, x, o, val, kt) ==
  LET m == hist[x][Last(x)] IN
  [val |-> val, rel |-> IF Rls(o) THEN JoinK(m.rel, kt) ELSE m.rel]

\* non-atomic access of region r by thread t (knowledge k)
Conflicts(r, t, k, wr) ==
  {a \in region[r].acs : (wr \/ a.wr) /\ ~(a.t = t \/ a.e <= k.vc[a.t])}
Touch(r, t, k, wr) ==
  [region EXCEPT ![r].acs = {a \in @ : ~(a.t = t /\ a.wr = wr)} \cup {Acc(t, k.vc[t], wr)}]

\* ---------------------------------------------------------------- steps
Op(t) == IF pc[t][1] <= Len(Progs[t]) THEN Progs[t][pc[t][1]] ELSE "done"
Step(t) == pc[t][2]
Goto(t, s) == pc' = [pc EXCEPT ![t] = <<pc[t][1], s>>]
NextOp(t) == pc' = [pc EXCEPT ![t] = <<pc[t][1] + 1, 0>>]
Unch(S) == UNCHANGED S /\ UNCHANGED Progs

\* control block of the handle the operation works on (the thread's first handle)
H(t) == own[t][1]
RcLoc(c) == <<"rc", c>>

\* atomic access to the counter of block c needs the block alive and its initialisation
\* to happen-before (that is what the Acquire on `data` / the AcqRel CAS are for)
CtlCheck(t, c, k) ==
  /\ uaf' = (uaf \/ ~region[<<"ctl", c>>].live)
  /\ race' = (race \/ Conflicts(<<"ctl", c>>, t, k, FALSE) # {})

IncSite == IF Repr = "sharedm" THEN "m_inc" ELSE IF Repr = "owner" THEN "o_inc" ELSE "inc"
DecSite == IF Repr = "sharedm" THEN "m_dec" ELSE IF Repr = "owner" THEN "o_dec" ELSE "dec"
FenceSite == IF Repr = "sharedm" THEN "m_fence" ELSE IF Repr = "owner" THEN "o_fence" ELSE "fence"

\* fetch_add(1) on the handle's counter
DoInc(t, c, after) ==
  LET x == RcLoc(c)
      k == RmwK(t, x, Ord[IncSite])
      v == hist[x][Last(x)].val
  IN /\ hist' = [hist EXCEPT ![x] = Append(@, RmwMsg(t, x, Ord[IncSite], v + 1, k))]
     /\ K' = [K EXCEPT ![t] = Tick(k, t)]
     /\ own' = [own EXCEPT ![t] = Append(@, c)]
     /\ CtlCheck(t, c, k)
     /\ after
     /\ Unch(<<reg, region, excl, dfree, sdata>>)

\* release_shared on block c, micro steps base+0 .. base+3
Release(t, c, base, fin) ==
  LET x == RcLoc(c) IN
  \/ /\ Step(t) = base        \* fetch_sub(1, dec)
     /\ LET k == RmwK(t, x, Ord[DecSite])
            v == hist[x][Last(x)].val
        IN /\ hist' = [hist EXCEPT ![x] = Append(@, RmwMsg(t, x, Ord[DecSite], v - 1, k))]
           /\ K' = [K EXCEPT ![t] = Tick(k, t)]
           /\ CtlCheck(t, c, k)
           /\ IF v = 1 THEN Goto(t, base + 1) ELSE fin
           /\ Unch(<<reg, own, region, excl, dfree, sdata>>)
  \/ /\ Step(t) = base + 1    \* load(fence): any admissible message, joins if Acquire
     /\ \E i \in K[t].pos[x]..Last(x) :
          /\ K' = [K EXCEPT ![t] = Tick(LoadAt(t, x, Ord[FenceSite], i), t)]
     /\ Goto(t, base + 2)
     /\ Unch(<<hist, reg, own, region, excl, race, uaf, dfree, sdata>>)
  \/ /\ Step(t) = base + 2    \* free the buffer
     /\ race' = (race \/ Conflicts(BUF, t, K[t], TRUE) # {})
     /\ dfree' = (dfree \/ ~region[BUF].live)
     /\ region' = [region EXCEPT ![BUF].live = FALSE]
     /\ K' = [K EXCEPT ![t] = Tick(@, t)]
     /\ Goto(t, base + 3)
     /\ Unch(<<hist, reg, own, excl, uaf, sdata>>)
  \/ /\ Step(t) = base + 3    \* free the control block
     /\ race' = (race \/ Conflicts(<<"ctl", c>>, t, K[t], TRUE) # {})
     /\ dfree' = (dfree \/ ~region[<<"ctl", c>>].live)
     /\ region' = [region EXCEPT ![<<"ctl", c>>].live = FALSE]
     /\ K' = [K EXCEPT ![t] = Tick(@, t)]
     /\ fin
     /\ Unch(<<hist, reg, own, excl, uaf, sdata>>)

DropFirst(t) == own' = [own EXCEPT ![t] = Tail(@)]

BufAccess(t, wr, after) ==
  /\ race' = (race \/ Conflicts(BUF, t, K[t], wr) # {})
  /\ uaf' = (uaf \/ ~region[BUF].live)
  /\ region' = Touch(BUF, t, K[t], wr)
  /\ K' = [K EXCEPT ![t] = Tick(@, t)]
  /\ after

\* --- operations on an own handle ---------------------------------------------------
Clone(t) ==
  /\ Op(t) = "clone" /\ own[t] # <<>> /\ H(t) # VEC
  /\ DoInc(t, H(t), NextOp(t))

Read(t) ==
  /\ Op(t) = "read" /\ own[t] # <<>>
  /\ BufAccess(t, FALSE, NextOp(t))
  /\ Unch(<<hist, reg, own, excl, dfree, sdata>>)

Drop(t) ==
  /\ Op(t) = "drop" /\ own[t] # <<>> /\ H(t) # VEC
  /\ \/ (Step(t) \in {0, 1, 2, 3} /\ Release(t, H(t), 0, Goto(t, 9)))
     \/ (Step(t) = 9 /\ DropFirst(t) /\ NextOp(t) /\ Unch(<<hist, K, reg, region, excl, race, uaf, dfree, sdata>>))

\* drop of an exclusive owner (Vec / inline BytesMut): frees the buffer
DropVec(t) ==
  /\ Op(t) = "drop" /\ own[t] # <<>> /\ H(t) = VEC
  /\ race' = (race \/ Conflicts(BUF, t, K[t], TRUE) # {})
  /\ dfree' = (dfree \/ ~region[BUF].live)
  /\ region' = [region EXCEPT ![BUF].live = FALSE]
  /\ K' = [K EXCEPT ![t] = Tick(@, t)]
  /\ DropFirst(t) /\ NextOp(t)
  /\ Unch(<<hist, reg, excl, uaf, sdata>>)

\* Bytes -> Vec<u8> of a bytes.rs Shared handle: CAS(1 -> 0)
ToVec(t) ==
  /\ Op(t) = "to_vec" /\ own[t] # <<>> /\ H(t) # VEC /\ Repr # "sharedm"
  /\ LET c == H(t) x == RcLoc(c) IN
     \/ /\ Step(t) = 0
        /\ \E i \in K[t].pos[x]..Last(x) :
             LET v == hist[x][i].val IN
             IF v = 1
             THEN /\ i = Last(x)              \* a successful RMW reads the last message
                  /\ LET k == RmwK(t, x, Ord["tovec_s"]) IN
                     /\ hist' = [hist EXCEPT ![x] = Append(@, RmwMsg(t, x, Ord["tovec_s"], 0, k))]
                     /\ K' = [K EXCEPT ![t] = Tick(k, t)]
                     /\ CtlCheck(t, c, k)
                  /\ Goto(t, 1)
             ELSE /\ K' = [K EXCEPT ![t] = Tick(LoadAt(t, x, Ord["tovec_f"], i), t)]
                  /\ hist' = hist /\ uaf' = uaf /\ race' = race
                  /\ Goto(t, 5)
        /\ Unch(<<reg, own, region, excl, dfree, sdata>>)
     \/ /\ Step(t) = 1                        \* exclusive: free the control block ...
        /\ race' = (race \/ Conflicts(<<"ctl", c>>, t, K[t], TRUE) # {})
        /\ dfree' = (dfree \/ ~region[<<"ctl", c>>].live)
        /\ region' = [region EXCEPT ![<<"ctl", c>>].live = FALSE]
        /\ K' = [K EXCEPT ![t] = Tick(@, t)]
        /\ Goto(t, 2)
        /\ Unch(<<hist, reg, own, excl, uaf, sdata>>)
     \/ /\ Step(t) = 2                        \* ... and move the bytes to the front (write)
        /\ BufAccess(t, TRUE, (excl' = excl + 1 /\ DropFirst(t) /\ NextOp(t)))
        /\ Unch(<<hist, reg, dfree, sdata>>)
     \/ /\ Step(t) = 5                        \* not unique: copy (read), then release
        /\ BufAccess(t, FALSE, Goto(t, 6))
        /\ Unch(<<hist, reg, own, excl, dfree, sdata>>)
     \/ /\ Step(t) \in {6, 7, 8, 9}
        /\ Release(t, c, 6, Goto(t, 10))
     \/ /\ Step(t) = 10 /\ DropFirst(t) /\ NextOp(t)
        /\ Unch(<<hist, K, reg, region, excl, race, uaf, dfree, sdata>>)

\* Bytes -> BytesMut / reclaiming reserve: load == 1 decides exclusive ownership
UniqSite == IF Repr = "sharedm" THEN "m_uniq" ELSE "uniq"
ToMut(t) ==
  /\ Op(t) \in {"to_mut", "reclaim"} /\ own[t] # <<>> /\ H(t) # VEC
  /\ LET c == H(t) x == RcLoc(c) IN
     \/ /\ Step(t) = 0
        /\ \E i \in K[t].pos[x]..Last(x) :
             LET k == LoadAt(t, x, Ord[UniqSite], i) IN
             /\ K' = [K EXCEPT ![t] = Tick(k, t)]
             /\ CtlCheck(t, c, k)
             /\ IF hist[x][i].val = 1 THEN Goto(t, 1)
                ELSE IF Op(t) = "reclaim" THEN NextOp(t) ELSE Goto(t, 5)
        /\ Unch(<<hist, reg, own, region, excl, dfree, sdata>>)
     \/ /\ Step(t) = 1                        \* unique: (bytes.rs) free the control block
        /\ IF Repr = "sharedm" THEN region' = region /\ race' = race /\ dfree' = dfree
           ELSE /\ race' = (race \/ Conflicts(<<"ctl", c>>, t, K[t], TRUE) # {})
                /\ dfree' = (dfree \/ ~region[<<"ctl", c>>].live)
                /\ region' = [region EXCEPT ![<<"ctl", c>>].live = FALSE]
        /\ K' = [K EXCEPT ![t] = Tick(@, t)]
        /\ Goto(t, 2)
        /\ Unch(<<hist, reg, own, excl, uaf, sdata>>)
     \/ /\ Step(t) = 2                        \* the new exclusive owner writes the buffer
        /\ BufAccess(t, TRUE, (excl' = excl + 1 /\ NextOp(t)
                               /\ IF Repr = "sharedm" THEN own' = own ELSE own' = [own EXCEPT ![t] = <<VEC>> \o Tail(@)]))
        /\ Unch(<<hist, reg, dfree, sdata>>)
     \/ /\ Step(t) = 5
        /\ BufAccess(t, FALSE, Goto(t, 6))
        /\ Unch(<<hist, reg, own, excl, dfree, sdata>>)
     \/ /\ Step(t) \in {6, 7, 8, 9}
        /\ Release(t, c, 6, Goto(t, 10))
     \/ /\ Step(t) = 10 /\ DropFirst(t) /\ NextOp(t)
        /\ Unch(<<hist, K, reg, region, excl, race, uaf, dfree, sdata>>)

\* --- clone through the shared &Bytes (promotable): the promotion race ---------------
CloneS(t) ==
  /\ Op(t) = "clone_s" /\ Repr = "prom"
  /\ \/ /\ Step(t) = 0                        \* load(data, prom_load)
        /\ \E i \in K[t].pos[DATA]..Last(DATA) :
             /\ K' = [K EXCEPT ![t] = Tick(LoadAt(t, DATA, Ord["prom_load"], i), t)]
             /\ reg' = [reg EXCEPT ![t] = hist[DATA][i].val]
             /\ IF hist[DATA][i].val = VEC THEN Goto(t, 1) ELSE Goto(t, 4)
        /\ Unch(<<hist, own, region, excl, race, uaf, dfree, sdata>>)
     \/ /\ Step(t) = 1                        \* allocate own control block (count 2)
        /\ region' = [region EXCEPT ![<<"ctl", t>>] = [live |-> TRUE, acs |-> {Acc(t, K[t].vc[t], TRUE)}]]
        /\ hist' = [hist EXCEPT ![RcLoc(t)] = <<[val |-> 2, rel |-> K0]>>]
        /\ K' = [K EXCEPT ![t] = Tick(@, t)]
        /\ Goto(t, 2)
        /\ Unch(<<reg, own, excl, race, uaf, dfree, sdata>>)
     \/ /\ Step(t) = 2                        \* compare_exchange(data, VEC -> ctl t)
        /\ \E i \in K[t].pos[DATA]..Last(DATA) :
             LET v == hist[DATA][i].val IN
             IF v = VEC
             THEN /\ i = Last(DATA)
                  /\ LET k == RmwK(t, DATA, Ord["cas_s"]) IN
                     /\ hist' = [hist EXCEPT ![DATA] = Append(@, RmwMsg(t, DATA, Ord["cas_s"], t, k))]
                     /\ K' = [K EXCEPT ![t] = Tick(k, t)]
                  /\ own' = [own EXCEPT ![t] = Append(@, t)]
                  /\ reg' = reg
                  /\ NextOp(t)
             ELSE /\ K' = [K EXCEPT ![t] = Tick(LoadAt(t, DATA, Ord["cas_f"], i), t)]
                  /\ reg' = [reg EXCEPT ![t] = v]
                  /\ hist' = hist /\ own' = own
                  /\ Goto(t, 3)
        /\ Unch(<<region, excl, race, uaf, dfree, sdata>>)
     \/ /\ Step(t) = 3                        \* lost the race: free own block
        /\ region' = [region EXCEPT ![<<"ctl", t>>].live = FALSE]
        /\ K' = [K EXCEPT ![t] = Tick(@, t)]
        /\ Goto(t, 4)
        /\ Unch(<<hist, reg, own, excl, race, uaf, dfree, sdata>>)
     \/ /\ Step(t) = 4                        \* fetch_add on the winner's block
        /\ DoInc(t, reg[t], NextOp(t))

\* main: after the joins, drops the shared &Bytes
MainDrop ==
  /\ \A t \in Thr : Op(t) = "done"
  /\ sdata = "main"
  /\ Repr = "prom"
  /\ sdata' = "gone"
  /\ Unch(<<hist, K, pc, reg, own, region, excl, race, uaf, dfree>>)

Next == \E t \in Thr : Clone(t) \/ Read(t) \/ Drop(t) \/ DropVec(t) \/ ToVec(t) \/ ToMut(t) \/ CloneS(t)

Spec == Init /\ [][Next]_vars

(***************************************************************************)
(* Invariants (C05, C06)                                                   *)
(***************************************************************************)
NoRace == ~race                    \* C06: no data race on buffer memory or the shared bookkeeping
NoUseAfterFree == ~uaf             \* C05/C06
FreedExactlyOnce == ~dfree         \* C05
AtMostOneExclusive == excl <= 1    \* C05
=============================================================================

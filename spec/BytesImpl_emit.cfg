CONSTANTS
  MAXW = 63
  IMAXW = 31
  ARENA = 256
  W = 6
  Profile = "release"
  Parities = {0}
  MaxAllocs = 6
  MaxHandles = 3
  MaxLen = 3
  Depth = 4
  EmitPrograms = TRUE
  SampleK = 300
  MaxBuf = 16
  OrigMinW = 10
  OrigMaxW = 17
  Mutation = "none"
  OpSet = {"b_new","b_static","b_from_vec","b_from_owner","m_with_capacity","m_from_slice","b_clone","b_slice","b_split_off","b_split_to","b_copy_to_bytes","b_truncate","b_clear","b_advance","b_into_vec","b_into_mut","b_try_into_mut","drop","v_into_bytes","m_split_off","m_split_to","m_split","m_truncate","m_advance","m_reserve","m_try_reclaim","m_extend","m_fill_spare","m_unsplit","m_freeze","m_into_vec"}
INIT Init
NEXT Next
VIEW View
INVARIANTS LawsAccept RcIsHandleCount AllFreed PromEndsAtEnd NoOverflow
ACTION_CONSTRAINT EmitEdge
CHECK_DEADLOCK FALSE

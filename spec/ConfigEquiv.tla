---------------------------- MODULE ConfigEquiv ----------------------------
(***************************************************************************)
(* C16: the observable results of any operation sequence do not depend on  *)
(* allocator address parity, build profile or feature set.  Two traces of  *)
(* the SAME programs recorded in two configurations are read in lock-step  *)
(* (the driver zips them: one record [a |-> event, b |-> event] per step)  *)
(* and their projections - operation, outcome (ok / panic / abort),        *)
(* returned values, and for every live handle its type, length, contents   *)
(* and is_unique answer - must be equal at every step.  Addresses,         *)
(* allocation ids and allocator events are configuration specific and are  *)
(* not compared.                                                           *)
(***************************************************************************)
EXTENDS Integers, Sequences, FiniteSets, TLC, Json, IOUtils

Rec == ndJsonDeserialize(IOEnv.TRACE)
VARIABLES l, pid, tainted, nviol
RangeOf(s) == {s[i] : i \in DOMAIN s}
Has(r, f) == f \in DOMAIN r

\* handle programs (Appendix A.1 events)
HProj(e) ==
  IF e.op = "reset" THEN <<"reset", e.pid>>
  ELSE IF e.op = "end" THEN <<"end", Len(e.live) = 0>>
  ELSE <<e.op, e.h, e.out.k, e.out.v, e.out.new,
         {<<o.h, o.ty, o.len, o.d, o.u>> : o \in RangeOf(e.obs)}>>

\* cursor / sink programs (events of vh-buf)
CProj(e) ==
  IF e.op = "reset" THEN <<"reset", e.pid, e.tree>>
  ELSE <<e.op, e.m, e.n, e.out, e.res, e.tree>>

Proj(e) == IF Has(e, "tree") THEN CProj(e) ELSE HProj(e)

Init == l = 1 /\ pid = -1 /\ tainted = FALSE /\ nviol = 0
Next ==
  /\ l <= Len(Rec)
  /\ LET r == Rec[l]
         isreset == r.a.op = "reset"
         differ == r.len_differs \/ Proj(r.a) # Proj(r.b)
         report == differ /\ (~tainted \/ isreset)
     IN /\ pid' = IF isreset THEN r.a.pid ELSE pid
        /\ tainted' = IF isreset THEN differ ELSE (tainted \/ differ)
        /\ nviol' = nviol + (IF report THEN 1 ELSE 0)
        /\ (report => PrintT(<<"LAWVIOL", IF isreset THEN r.a.pid ELSE pid, r.a.i, r.a.op, {<<"C16", "cfg_equal">>}>>))
        /\ (l = Len(Rec) => PrintT(<<"DONE", Len(Rec), nviol', [steps |-> Len(Rec)]>>))
  /\ l' = l + 1
=============================================================================

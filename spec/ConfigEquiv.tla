---------------------------- MODULE ConfigEquiv ----------------------------
(***************************************************************************)
(* C16: the observable results of any operation sequence do not depend on  *)
(* allocator address parity, build profile or feature set.  Two traces of  *)
(* the SAME programs recorded in two configurations are read in lock-step  *)
(* (the driver zips them: one record [a |-> event, b |-> event] per step)  *)
(* and their projections - operation, outcome (ok / panic / abort),        *)
(* returned values, and for every live handle its type, length, contents   *)
(* capacity and is_unique answer, and the allocator anomalies of the step  *)
(* (wrong free layout, free of nothing, guard / poison damage) - must be   *)
(* equal at every step.  Addresses, allocation ids and the allocator       *)
(* events themselves are configuration specific and are not compared.      *)
(***************************************************************************)
EXTENDS Integers, Sequences, FiniteSets, TLC, Json, IOUtils

Rec == ndJsonDeserialize(IOEnv.TRACE)
VARIABLES l, pid, tainted, nviol
RangeOf(s) == {s[i] : i \in DOMAIN s}
Has(r, f) == f \in DOMAIN r

\* handle programs (Appendix A.1 events)
HProj(e) ==
  IF e.op = "reset" THEN <<"reset", e.pid>>
  ELSE IF e.op = "end" THEN <<"end", Len(e.live) = 0>>
  ELSE <<e.op, e.h, e.out.k, e.out.v, e.out.new,
         {<<o.h, o.ty, o.len, o.cap, o.d, o.u>> : o \in RangeOf(e.obs)},
         \* allocator events are configuration specific, allocator ANOMALIES are not: a free with
         \* a layout other than the allocated one, a free of nothing, damage to guards / poison
         {m.e : m \in {x \in RangeOf(e.mem) : x.e \in {"bad_free", "redzone", "poison"}}}
           \cup (IF \E m \in RangeOf(e.mem) : m.e = "free" /\ (m.size # m.rsize \/ m.align # m.ralign) THEN {"free_layout"} ELSE {})>>

\* cursor / sink programs (events of vh-buf)
CProj(e) ==
  IF e.op = "reset" THEN <<"reset", e.pid, e.tree>>
  ELSE <<e.op, e.m, e.n, e.out, e.res, e.tree>>

\* pure-function records of vh-pure (comparisons, formatting): the whole record
Proj(e) == IF Has(e, "tree") THEN CProj(e) ELSE IF Has(e, "k") THEN <<e>> ELSE HProj(e)

Init == l = 1 /\ pid = -1 /\ tainted = FALSE /\ nviol = 0
Next ==
  /\ l <= Len(Rec)
  /\ LET r == Rec[l]
         isreset == Has(r.a, "op") /\ r.a.op = "reset"
         differ == r.len_differs \/ Proj(r.a) # Proj(r.b)
         report == differ /\ (~tainted \/ isreset)
     IN /\ pid' = IF isreset THEN r.a.pid ELSE pid
        /\ tainted' = IF isreset THEN differ ELSE (tainted \/ differ)
        /\ nviol' = nviol + (IF report THEN 1 ELSE 0)
        /\ (report => PrintT(<<"LAWVIOL", IF isreset THEN r.a.pid ELSE pid, IF Has(r.a, "i") THEN r.a.i ELSE l,
                                IF Has(r.a, "op") THEN r.a.op ELSE r.a.k, {<<"C16", "cfg_equal">>}>>))
        /\ (l = Len(Rec) => PrintT(<<"DONE", Len(Rec), nviol', [steps |-> Len(Rec)]>>))
  /\ l' = l + 1
=============================================================================

------------------------------- MODULE BufGen -------------------------------
(***************************************************************************)
(* Generator (binding G) for cursor and sink programs: builds every tree   *)
(* of the crate's Buf / BufMut implementors and adapters up to a depth,    *)
(* then every sequence of operations whose arguments are the boundary      *)
(* classes of the *current* abstract state (computed with the law          *)
(* operators Flat/Consume/Room/WriteTree of BufLaws).  Explored            *)
(* exhaustively for small bounds and by seeded simulation beyond; every    *)
(* finished behaviour is printed as one REPLAY line.                       *)
(***************************************************************************)
EXTENDS BufLaws, Json

CONSTANTS Side,        \* "buf" | "mut"
          MaxDepth, MaxLeaves, MaxOps, LeafLens, LeafTypes, OpNames, GetNames, Ns, Emit, SampleK,
          Wraps,         \* subset of {"ref", "box"}: wrapper nodes the generator may add
          RootLimitOnly  \* TRUE: Take/Limit only as the outermost node (keeps deep chains enumerable)

VARIABLES stack, phase, tree0, tree, ops, nleaf
vars == <<stack, phase, tree0, tree, ops, nleaf>>

Max2(a, b) == IF a >= b THEN a ELSE b
RECURSIVE Depth(_)
Depth(t) == CASE t.k = "leaf" -> 0
              [] t.k = "chain" -> 1 + Max2(Depth(t.a), Depth(t.b))
              [] OTHER -> 1 + Depth(t.t)

\* data of the i-th leaf: position-identifying, optionally with the top bit set
LeafData(i, len, high) == [j \in 1..len |-> ((i * 16 + j) % 120) + 1 + (IF high THEN 128 ELSE 0)]

\* "chainn": a left-nested Chain of one-byte slices (many chunks with real chunks_vectored)
\* chunk lengths of a leaf as the real object presents them (used by BufTree.tla):
\* single-chunk types: <<len>>; deque: (s1, s2) split at cut; chunked: with empty chunks
\* in between (cut = 1) or around (cut = 2); chainn: one-byte chunks
ChunkLens(ty, len, cut) ==
  CASE ty \in {"slice", "bytes", "bytesmut", "cursor"} -> <<len>>
    [] ty = "deque" -> IF cut = 0 THEN <<len, 0>> ELSE <<cut, len - cut>>
    [] ty = "chunked" -> IF cut = 0 THEN <<len>> ELSE IF cut = 1 THEN <<1, 0, len - 1>> ELSE <<0, 2, len - 2, 0>>
    [] ty = "chainn" -> [i \in 1..len |-> 1]
    [] OTHER -> <<len>>

BufLeafTypes == {"slice", "bytes", "bytesmut", "cursor", "deque", "chunked", "chainn"}
SinkLeafTypes == {"vec", "bytesmut", "slice", "uninit"}

Init == stack = <<>> /\ phase = "build" /\ tree0 = [k |-> "none"] /\ tree = [k |-> "none"] /\ ops = <<>> /\ nleaf = 0

PushLeaf ==
  /\ phase = "build" /\ nleaf < MaxLeaves /\ Len(stack) < 3
  /\ IF Side = "buf"
     THEN \E ty \in BufLeafTypes \cap LeafTypes, len \in LeafLens, high \in BOOLEAN, cut \in 0..2 :
            /\ cut <= len
            /\ (ty \notin {"deque", "chunked", "cursor"} => cut = 0)
            /\ (ty = "chunked" /\ cut > 0 => len >= cut)
            /\ stack' = Append(stack, [k |-> "leaf", ty |-> ty, limit |-> 0, d |-> LeafData(nleaf, len, high), cut |-> cut,
                                       cl |-> ChunkLens(ty, len, cut)])
     ELSE \E ty \in SinkLeafTypes \cap LeafTypes, n \in LeafLens, pre \in {0, 1} :
            /\ (ty \in {"slice", "uninit"} => pre = 0)
            /\ stack' = Append(stack, [k |-> "leaf", ty |-> ty, limit |-> 0, fixed |-> ty \in {"slice", "uninit"},
                                       room |-> IF ty \in {"slice", "uninit"} THEN n ELSE IF ty = "vec" THEN IMAXW - pre ELSE MAXW - pre,
                                       guard |-> TRUE, w |-> <<>>, cap |-> n, pre |-> pre])
  /\ nleaf' = nleaf + 1
  /\ UNCHANGED <<phase, tree0, tree, ops>>

Top == stack[Len(stack)]
Pop1 == SubSeq(stack, 1, Len(stack) - 1)
Pop2 == SubSeq(stack, 1, Len(stack) - 2)

MkChain ==
  /\ phase = "build" /\ Len(stack) >= 2
  /\ LET a == stack[Len(stack) - 1] b == Top IN
     /\ 1 + Max2(Depth(a), Depth(b)) <= MaxDepth
     /\ stack' = Append(Pop2, [k |-> "chain", limit |-> 0, a |-> a, b |-> b])
  /\ UNCHANGED <<phase, tree0, tree, ops, nleaf>>

MkLimit ==
  /\ phase = "build" /\ Len(stack) >= 1 /\ 1 + Depth(Top) <= MaxDepth
  /\ (RootLimitOnly => (Len(stack) = 1 /\ Top.k # "take" /\ Top.k # "limit"))
  /\ LET t == Top
         len == IF Side = "buf" THEN Len(Flat(t)) ELSE Min2(Room(t), 6)
     IN \E lim \in {0, 1, len - 1, len, len + 1, MAXW} :
          /\ lim >= 0
          /\ stack' = Append(Pop1, [k |-> IF Side = "buf" THEN "take" ELSE "limit", limit |-> lim, t |-> t])
  /\ UNCHANGED <<phase, tree0, tree, ops, nleaf>>

MkWrap ==
  /\ phase = "build" /\ Len(stack) >= 1 /\ 1 + Depth(Top) <= MaxDepth
  /\ \E w \in Wraps : stack' = Append(Pop1, [k |-> w, limit |-> 0, t |-> Top])
  /\ UNCHANGED <<phase, tree0, tree, ops, nleaf>>

Start ==
  /\ phase = "build" /\ Len(stack) = 1
  /\ phase' = "ops" /\ tree0' = stack[1] /\ tree' = stack[1]
  /\ UNCHANGED <<stack, ops, nleaf>>

\* positions of Take/Limit nodes, as child-index paths
RECURSIVE LimPaths(_)
LimPaths(t) ==
  CASE t.k = "leaf" -> {}
    [] t.k = "chain" -> {<<0>> \o p : p \in LimPaths(t.a)} \cup {<<1>> \o p : p \in LimPaths(t.b)}
    [] t.k \in {"take", "limit"} -> {<<>>} \cup {<<0>> \o p : p \in LimPaths(t.t)}
    [] OTHER -> {<<0>> \o p : p \in LimPaths(t.t)}

OpRec(op, m, n, path, d, v, val, src) == [op |-> op, m |-> m, n |-> n, path |-> path, d |-> d, v |-> v, val |-> val, src |-> src]
NoSrc == [k |-> "leaf", ty |-> "slice", limit |-> 0, d |-> <<>>, cut |-> 0, cl |-> <<0>>]
V16s == {[i \in 1..16 |-> IF i = 16 THEN 1 ELSE 0],                       \* 1
         [i \in 1..16 |-> 255],                                          \* -1
         [i \in 1..16 |-> i],                                            \* 0x0102...10
         [i \in 1..16 |-> IF i = 9 THEN 128 ELSE IF i < 9 THEN 255 ELSE 0],  \* i64::MIN
         [i \in 1..16 |-> IF i = 16 THEN 128 ELSE 0]}                    \* 0x80

BufOp ==
  /\ phase = "ops" /\ Len(ops) < MaxOps /\ Side = "buf" /\ tree.k # "gone"
  /\ LET F == Flat(tree) len == Len(F) IN
     \/ \E op \in OpNames \cap {"remaining", "has_remaining", "chunk", "fill_buf"} :
          /\ ops' = Append(ops, OpRec(op, "", 0, <<>>, <<>>, <<>>, 0, NoSrc)) /\ tree' = tree
     \/ \E op \in OpNames \cap {"advance", "consume", "copy_to_slice", "copy_to_bytes", "try_copy_to_slice", "read"},
          n \in {0, 1, len - 1, len, len + 1, len + 3} :
          /\ n >= 0
          /\ ops' = Append(ops, OpRec(op, "", n, <<>>, <<>>, <<>>, 0, NoSrc))
          /\ tree' = IF n <= len THEN Consume(tree, n)
                     ELSE IF op = "read" THEN Consume(tree, len)
                     ELSE IF op = "try_copy_to_slice" THEN tree
                     ELSE [k |-> "gone", limit |-> 0]       \* state after a panic is unspecified: stop
     \/ \E k \in (IF "chunks_vectored" \in OpNames THEN {0, 1, 2, 3, 17} ELSE {}) :
          /\ ops' = Append(ops, OpRec("chunks_vectored", "", k, <<>>, <<>>, <<>>, 0, NoSrc)) /\ tree' = tree
     \/ \E m \in (IF "get" \in OpNames THEN GetNames ELSE {}), n \in Ns :
          /\ (~Methods[m].var => n = 0)
          /\ LET w == Width(m, n) IN
             /\ ops' = Append(ops, OpRec("get", m, n, <<>>, <<>>, <<>>, 0, NoSrc))
             /\ tree' = IF w <= len THEN Consume(tree, w) ELSE IF Methods[m].try THEN tree ELSE [k |-> "gone", limit |-> 0]
     \/ \E p \in (IF "set_limit" \in OpNames THEN LimPaths(tree) ELSE {}), v \in {0, 1, len, len + 2, MAXW} :
          /\ ops' = Append(ops, OpRec("set_limit", "", v, p, <<>>, <<>>, 0, NoSrc)) /\ tree' = SetLim(tree, p, v)
     \/ \E p \in (IF "advance_at" \in OpNames THEN NodePaths(tree) \ {<<>>} ELSE {}) :
          LET sl == Len(Flat(SubAt(tree, p))) IN
          \E n \in {0, 1, sl} :
            /\ n <= sl
            /\ ops' = Append(ops, OpRec("advance_at", "", n, p, <<>>, <<>>, 0, NoSrc)) /\ tree' = AdvAt(tree, p, n)
     \/ /\ "into_iter" \in OpNames
        /\ ops' = Append(ops, OpRec("into_iter", "", 0, <<>>, <<>>, <<>>, 0, NoSrc)) /\ tree' = Consume(tree, len)
     \/ \E n \in (IF "iter_nth" \in OpNames THEN {0, 1, len - 1, len, len + 2} ELSE {}) :
          /\ n >= 0
          /\ ops' = Append(ops, OpRec("iter_nth", "", n, <<>>, <<>>, <<>>, 0, NoSrc)) /\ tree' = Consume(tree, Min2(n + 1, len))
  /\ UNCHANGED <<stack, phase, tree0, nleaf>>

SrcTrees == {[k |-> "leaf", ty |-> "slice", limit |-> 0, d |-> <<201, 202, 203>>, cut |-> 0, cl |-> <<3>>],
             [k |-> "leaf", ty |-> "chunked", limit |-> 0, d |-> <<201, 202, 203, 204>>, cut |-> 2, cl |-> <<0, 2, 2, 0>>],
             [k |-> "chain", limit |-> 0,
              a |-> [k |-> "leaf", ty |-> "bytes", limit |-> 0, d |-> <<201>>, cut |-> 0, cl |-> <<1>>],
              b |-> [k |-> "leaf", ty |-> "deque", limit |-> 0, d |-> <<202, 203>>, cut |-> 1, cl |-> <<1, 1>>]]}

MutOp ==
  /\ phase = "ops" /\ Len(ops) < MaxOps /\ Side = "mut" /\ tree.k # "gone"
  /\ LET room == Room(tree)
         wr(s) == IF Len(s) <= room THEN WriteTree(tree, s) ELSE [k |-> "gone", limit |-> 0]
     IN
     \/ \E op \in OpNames \cap {"remaining_mut", "has_remaining_mut", "chunk_mut_len"} :
          /\ ops' = Append(ops, OpRec(op, "", 0, <<>>, <<>>, <<>>, 0, NoSrc)) /\ tree' = tree
     \/ \E m \in (IF "put" \in OpNames THEN GetNames ELSE {}), n \in Ns, v \in V16s :
          /\ (~Methods[m].var => n = 0)
          /\ ops' = Append(ops, OpRec("put", m, n, <<>>, <<>>, v, 0, NoSrc))
          /\ tree' = wr(Encode(m, v, n))
     \/ \E k \in (IF "put_slice" \in OpNames THEN {0, 1, 2, 5} ELSE {}) :
          LET d == [i \in 1..k |-> 100 + i + Len(ops)] IN
          /\ ops' = Append(ops, OpRec("put_slice", "", k, <<>>, d, <<>>, 0, NoSrc)) /\ tree' = wr(d)
     \/ \E k \in (IF "put_bytes" \in OpNames THEN {0, 1, 2, 3, 5} ELSE {}) :
          /\ ops' = Append(ops, OpRec("put_bytes", "", k, <<>>, <<>>, <<>>, 77, NoSrc)) /\ tree' = wr([i \in 1..k |-> 77])
     \/ \E s \in (IF "put_buf" \in OpNames THEN SrcTrees ELSE {}) :
          /\ ops' = Append(ops, OpRec("put_buf", "", 0, <<>>, <<>>, <<>>, 0, s)) /\ tree' = wr(Flat(s))
     \/ \E k \in (IF "write" \in OpNames THEN {0, 2, 5} ELSE {}) :
          LET d == [i \in 1..k |-> 150 + i] IN
          /\ ops' = Append(ops, OpRec("write", "", k, <<>>, d, <<>>, 0, NoSrc)) /\ tree' = WriteTree(tree, Take(d, Min2(k, room)))
     \/ \E k \in (IF "manual" \in OpNames THEN {1, 3} ELSE {}) :
          \* the number of bytes a single chunk accepts is the implementation's choice: stop modelling
          /\ ops' = Append(ops, OpRec("manual", "", k, <<>>, [i \in 1..k |-> 180 + i], <<>>, 0, NoSrc)) /\ tree' = [k |-> "gone", limit |-> 0]
     \/ \E p \in (IF "set_limit" \in OpNames THEN LimPaths(tree) ELSE {}), v \in {0, 1, 3, MAXW} :
          /\ ops' = Append(ops, OpRec("set_limit", "", v, p, <<>>, <<>>, 0, NoSrc)) /\ tree' = SetLim(tree, p, v)
     \* a bare advance_mut over already initialised memory (fixed targets only: their storage is
     \* initialised with FILL): the cursor moves as if FILL bytes had been written
     \/ \E k \in (IF "advance_mut" \in OpNames /\ AllFixed(tree) THEN {0, 1, 2, 3, room} ELSE {}) :
          /\ k <= room
          /\ ops' = Append(ops, OpRec("advance_mut", "", k, <<>>, <<>>, <<>>, 0, NoSrc)) /\ tree' = WriteTree(tree, [i \in 1..k |-> FILL])
  /\ UNCHANGED <<stack, phase, tree0, nleaf>>

Finish ==
  /\ phase = "ops" /\ Len(ops) > 0
  /\ phase' = "done"
  /\ UNCHANGED <<stack, tree0, tree, ops, nleaf>>

Next == PushLeaf \/ MkChain \/ MkLimit \/ MkWrap \/ Start \/ BufOp \/ MutOp \/ Finish

\* INVARIANT that never fails: prints the finished programs
EmitDone == (Emit /\ phase = "done" /\ RandomElement(1..SampleK) = 1) => PrintT(<<"REPLAY", ToJson([side |-> Side, tree |-> tree0, ops |-> ops])>>)
=============================================================================

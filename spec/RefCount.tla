------------------------------ MODULE RefCount ------------------------------
(***************************************************************************)
(* The release protocol of ONE byte buffer, abstracted from bytes.rs /      *)
(* bytes_mut.rs, for an unbounded number of handles (C03: "released exactly *)
(* once, after its last handle, whatever the drop order").                  *)
(*                                                                         *)
(*   phase "none"  : the buffer does not exist yet                          *)
(*   phase "vec"   : owned by exactly one handle, no counter (KIND_VEC      *)
(*                   BytesMut, unpromoted promotable Bytes, a Vec<u8>)      *)
(*   phase "arc"   : a control block counts the handles (Shared, ref_cnt)   *)
(*   phase "freed" : deallocated                                            *)
(*                                                                         *)
(* RefCountProofs.tla (TLAPS, checked by tlapm) establishes the inductive  *)
(* invariant for ANY set Handle, finite or not, and any number of steps.    *)
(* BytesImpl.tla is checked by TLC to refine this module buffer by buffer   *)
(* (MCRefine.tla), and BytesImpl is bound to the code by replay (binding    *)
(* G/D): code ~ BytesImpl  =>  RefCount  =>  released exactly once.         *)
(***************************************************************************)
EXTENDS Naturals, FiniteSets

CONSTANT Handle

VARIABLES phase, rc, live, frees
vars == <<phase, rc, live, frees>>

Init == phase = "none" /\ rc = 0 /\ live = {} /\ frees = 0

\* a constructor: one owner without a counter
CreateVec(h) ==
  /\ phase = "none" /\ h \in Handle
  /\ phase' = "vec" /\ live' = {h} /\ UNCHANGED <<rc, frees>>

\* a constructor that starts counted (Bytes::from(Vec) with spare capacity, from_owner, split of
\* a KIND_VEC BytesMut creates the Shared with the count of the handles that exist afterwards)
CreateArc(H) ==
  /\ phase = "none" /\ H \subseteq Handle /\ IsFiniteSet(H) /\ H # {}
  /\ phase' = "arc" /\ live' = H /\ rc' = Cardinality(H) /\ UNCHANGED frees

\* first clone / split of an uncounted buffer: the counter starts at 2
Promote(h) ==
  /\ phase = "vec" /\ h \in Handle \ live
  /\ phase' = "arc" /\ rc' = 2 /\ live' = live \cup {h} /\ UNCHANGED frees

\* clone, slice, split_off, split_to ... of a counted buffer
Acquire(h) ==
  /\ phase = "arc" /\ h \in Handle \ live
  /\ rc' = rc + 1 /\ live' = live \cup {h} /\ UNCHANGED <<phase, frees>>

\* drop (or any consuming operation that gives up the reference) of a counted buffer
Release(h) ==
  /\ phase = "arc" /\ h \in live
  /\ live' = live \ {h}
  /\ IF rc = 1 THEN phase' = "freed" /\ rc' = 0 /\ frees' = frees + 1
               ELSE phase' = phase /\ rc' = rc - 1 /\ frees' = frees

\* two holders give up their references inside one operation (BytesMut::unsplit of two
\* non-adjacent halves: self moves to a fresh buffer, other is dropped)
ReleaseTwo(h, g) ==
  /\ phase = "arc" /\ h \in live /\ g \in live /\ h # g
  /\ live' = live \ {h, g}
  /\ IF rc = 2 THEN phase' = "freed" /\ rc' = 0 /\ frees' = frees + 1
               ELSE phase' = phase /\ rc' = rc - 2 /\ frees' = frees

\* drop of the single uncounted owner
DropVec(h) ==
  /\ phase = "vec" /\ h \in live
  /\ phase' = "freed" /\ live' = {} /\ frees' = frees + 1 /\ UNCHANGED rc

\* the unique holder takes the buffer back out of the control block; the handle may be replaced by
\* its converted form in the same step (try_into_mut / Into<Vec<u8>> / Into<BytesMut> when unique)
Demote(h, g) ==
  /\ phase = "arc" /\ rc = 1 /\ h \in live /\ g \in Handle \ (live \ {h})
  /\ phase' = "vec" /\ rc' = 0 /\ live' = (live \ {h}) \cup {g} /\ UNCHANGED frees

\* a consuming conversion replaces the handle by another (freeze, into_mut, into_vec)
Transfer(h, g) ==
  /\ phase \in {"vec", "arc"} /\ h \in live /\ g \in Handle \ live
  /\ live' = (live \ {h}) \cup {g} /\ UNCHANGED <<phase, rc, frees>>

\* a temporary: allocated and released inside one operation (a panicking constructor, the
\* reallocation of a buffer that is abandoned at once)
Ephemeral ==
  /\ phase = "none"
  /\ phase' = "freed" /\ live' = {} /\ rc' = 0 /\ frees' = frees + 1

\* the single owner moves its buffer under a counter and stays the only holder; the handle may be
\* replaced by its converted form in the same step (BytesMut::freeze / Bytes::from(Vec) of a buffer
\* with spare capacity; Bytes::truncate on an unpromoted promotable Bytes = drop(split_off):
\* promote to 2, release 1)
PromoteSelf(h, g) ==
  /\ phase = "vec" /\ h \in live /\ g \in Handle \ (live \ {h})
  /\ phase' = "arc" /\ rc' = 1 /\ live' = (live \ {h}) \cup {g} /\ UNCHANGED frees

Next ==
  \/ Ephemeral
  \/ \E h \in Handle : CreateVec(h) \/ Promote(h) \/ Acquire(h) \/ Release(h) \/ DropVec(h)
  \/ \E H \in SUBSET Handle : CreateArc(H)
  \/ \E h, g \in Handle : Transfer(h, g) \/ Demote(h, g) \/ PromoteSelf(h, g) \/ ReleaseTwo(h, g)

Spec == Init /\ [][Next]_vars

(***************************************************************************)
(* The inductive invariant and what C03 asks for.                           *)
(***************************************************************************)
Inv ==
  /\ phase \in {"none", "vec", "arc", "freed"}
  /\ rc \in Nat /\ frees \in Nat
  /\ live \subseteq Handle /\ IsFiniteSet(live)
  /\ phase = "none" => live = {} /\ frees = 0
  /\ phase = "vec" => Cardinality(live) = 1 /\ frees = 0
  /\ phase = "arc" => rc = Cardinality(live) /\ rc >= 1 /\ frees = 0
  /\ phase = "freed" => live = {} /\ frees = 1

ReleasedAtMostOnce == frees <= 1
OnlyAfterLastHandle == frees > 0 => live = {}
NoLeak == (phase # "none" /\ live = {}) => frees = 1
CountIsHolders == phase = "arc" => rc = Cardinality(live)

Safe == ReleasedAtMostOnce /\ OnlyAfterLastHandle /\ NoLeak /\ CountIsHolders

=============================================================================

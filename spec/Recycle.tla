------------------------------- MODULE Recycle -------------------------------
(***************************************************************************)
(* C18: a BytesMut used as a recycling buffer.  Abstract design model of   *)
(* the capacity bookkeeping of bytes_mut.rs (contents are abstracted       *)
(* away): the current handle, the allocations with their reference counts, *)
(* and a FIFO window of retained consumed parts.  Rounds of                *)
(* reserve(n) + append(m), consumption by split_to / split / advance /     *)
(* truncate, optional freeze -> try_into_mut round trips.                  *)
(*                                                                         *)
(* Allocation ids are reused, the state carries no history, so the         *)
(* reachable graph is FINITE and TLC explores it completely: every history *)
(* of ANY length is a path in it.  Checked:                                *)
(*   SizeBounded / LiveBounded  no reachable state holds a buffer larger   *)
(*        than MaxSize / more live bytes than MaxLive (no per-round creep) *)
(*   NoSteadyAlloc (K = 0)      <>[] no allocation: no reachable cycle     *)
(*        contains a byte-buffer allocation                                *)
(*   EmptySoleReserveNoAlloc    reserve on an empty handle alone on a      *)
(*        large enough allocation never allocates                          *)
(***************************************************************************)
EXTENDS Integers, Sequences, FiniteSets, TLC

CONSTANTS
  K,          \* retention window: at most K consumed parts are alive across a refill
  MaxMsg,     \* bytes reserved/appended per round: 1..MaxMsg
  Caps0,      \* initial capacities
  NA,         \* allocation ids 1..NA
  MaxSize,    \* a buffer larger than this is runaway growth
  MaxLive,    \* bound on the sum of live buffer sizes
  MinCap,     \* Vec's minimal non-zero capacity for u8 (8 in std)
  OrigMinW, OrigMaxW,   \* original-capacity widths (10/17 in the code; scaled here)
  MaxLeft,    \* the consumer keeps up: at most MaxLeft bytes stay unconsumed after each round
  RoundTrips  \* allow freeze -> try_into_mut / into round trips

VARIABLES alloc, cur, win, phase, lastAlloc, violated
vars == <<alloc, cur, win, phase, lastAlloc, violated>>

Ids == 1..NA
Max2(a, b) == IF a >= b THEN a ELSE b
Min2(a, b) == IF a <= b THEN a ELSE b
Pow2(n) == 2 ^ n
RECURSIVE Bits(_)
Bits(n) == IF n = 0 THEN 0 ELSE 1 + Bits(n \div 2)
OrigRepr(cap) == Min2(Bits(cap \div Pow2(OrigMinW)), OrigMaxW - OrigMinW)
OrigCap(r) == IF r = 0 THEN 0 ELSE Pow2(r + OrigMinW - 1)
VecGrow(cap, need) == Max2(Max2(2 * cap, need), MinCap)

FreeIds == {i \in Ids : ~alloc[i].live}
NewId == CHOOSE i \in FreeIds : \A j \in FreeIds : i <= j
Dead == [live |-> FALSE, size |-> 0, rc |-> 0]

\* drop one reference on allocation a
Release(al, a) == IF a = 0 THEN al
                  ELSE IF al[a].rc = 1 THEN [al EXCEPT ![a] = Dead] ELSE [al EXCEPT ![a].rc = @ - 1]

NoCur == [a |-> 0, kind |-> "vec", off |-> 0, len |-> 0, cap |-> 0, orig |-> 0]

Init ==
  /\ alloc = [i \in Ids |-> Dead]
  /\ cur = NoCur /\ win = <<>> /\ phase = "start" /\ lastAlloc = FALSE /\ violated = FALSE

Start ==
  /\ phase = "start"
  /\ \E c \in Caps0 :
       IF c = 0 THEN cur' = NoCur /\ alloc' = alloc
       ELSE /\ alloc' = [alloc EXCEPT ![1] = [live |-> TRUE, size |-> c, rc |-> 1]]
            /\ cur' = [a |-> 1, kind |-> "vec", off |-> 0, len |-> 0, cap |-> c, orig |-> OrigRepr(c)]
  /\ phase' = "refill" /\ win' = win /\ lastAlloc' = FALSE /\ violated' = violated

\* reserve(n): returns [cur, alloc, allocated]
Reserve(n) ==
  LET len == cur.len IN
  IF n <= cur.cap - len THEN [cur |-> cur, alloc |-> alloc, allocated |-> FALSE]
  ELSE IF cur.kind = "vec" THEN
       IF cur.cap - len + cur.off >= n /\ cur.off >= len
       THEN [cur |-> [cur EXCEPT !.off = 0, !.cap = @ + cur.off], alloc |-> alloc, allocated |-> FALSE]
       ELSE LET ncap == VecGrow(cur.cap + cur.off, len + cur.off + n)
                al1 == Release(alloc, cur.a)
                id == CHOOSE i \in Ids : ~al1[i].live /\ \A j \in Ids : ~al1[j].live => i <= j
            IN [cur |-> [cur EXCEPT !.a = id, !.cap = ncap - cur.off],
                alloc |-> [al1 EXCEPT ![id] = [live |-> TRUE, size |-> ncap, rc |-> 1]], allocated |-> TRUE]
  ELSE
       LET vcap == alloc[cur.a].size
           newcap == len + n
       IN
       IF alloc[cur.a].rc = 1 THEN
            IF vcap >= newcap + cur.off THEN [cur |-> [cur EXCEPT !.cap = newcap], alloc |-> alloc, allocated |-> FALSE]
            ELSE IF vcap >= newcap /\ cur.off >= len
                 THEN [cur |-> [cur EXCEPT !.off = 0, !.cap = vcap], alloc |-> alloc, allocated |-> FALSE]
            ELSE LET want == Max2(2 * vcap, newcap + cur.off)
                     ncap == VecGrow(vcap, want)
                     al1 == Release(alloc, cur.a)
                     id == CHOOSE i \in Ids : ~al1[i].live /\ \A j \in Ids : ~al1[j].live => i <= j
                 IN [cur |-> [cur EXCEPT !.a = id, !.cap = ncap - cur.off],
                     alloc |-> [al1 EXCEPT ![id] = [live |-> TRUE, size |-> ncap, rc |-> 1]], allocated |-> TRUE]
       ELSE LET want == Max2(newcap, OrigCap(cur.orig))
                al1 == Release(alloc, cur.a)
                id == CHOOSE i \in Ids : ~al1[i].live /\ \A j \in Ids : ~al1[j].live => i <= j
            IN [cur |-> [cur EXCEPT !.a = id, !.kind = "vec", !.off = 0, !.cap = want],
                alloc |-> [al1 EXCEPT ![id] = [live |-> TRUE, size |-> want, rc |-> 1]], allocated |-> TRUE]

\* the premise of "reserve on an empty sole handle never allocates"
EmptySole(n) == cur.a # 0 /\ cur.len = 0 /\ n <= alloc[cur.a].size
                /\ (cur.kind = "vec" \/ alloc[cur.a].rc = 1)

Refill ==
  /\ phase = "refill" /\ Len(win) <= K
  /\ Cardinality(FreeIds) >= 1
  /\ \E n \in 1..MaxMsg, m \in 1..MaxMsg :
       /\ m <= n
       /\ LET R == Reserve(n) IN
          /\ cur' = [R.cur EXCEPT !.len = @ + m]
          /\ alloc' = R.alloc
          /\ lastAlloc' = R.allocated
          /\ violated' = (violated \/ (R.allocated /\ EmptySole(n)))
  /\ phase' = "consume" /\ win' = win

\* shallow_clone for a split: promote or increment; returns alloc
Share == IF cur.kind = "vec" THEN [alloc EXCEPT ![cur.a].rc = 2] ELSE [alloc EXCEPT ![cur.a].rc = @ + 1]

Consume ==
  /\ phase = "consume" /\ cur.len > 0
  /\ \/ \E k \in 1..cur.len :                     \* split_to(k) / split()
          /\ cur.len - k <= MaxLeft
          /\ alloc' = Share
          /\ cur' = [cur EXCEPT !.kind = "arc", !.off = @ + k, !.len = @ - k, !.cap = @ - k]
          /\ win' = Append(win, cur.a)
     \/ \E k \in 1..cur.len :                     \* advance(k)
          /\ cur.len - k <= MaxLeft
          /\ cur' = [cur EXCEPT !.off = @ + k, !.len = @ - k, !.cap = @ - k]
          /\ alloc' = alloc /\ win' = win
     \/ /\ cur' = [cur EXCEPT !.len = 0]          \* truncate(0) / clear
        /\ alloc' = alloc /\ win' = win
  /\ phase' = "refill" /\ lastAlloc' = FALSE /\ violated' = violated

Retire ==
  /\ win # <<>>
  /\ alloc' = Release(alloc, Head(win))
  /\ win' = Tail(win)
  /\ UNCHANGED <<cur, phase, violated>> /\ lastAlloc' = FALSE

\* cur.freeze() followed by Bytes::try_into_mut() / BytesMut::from(bytes)
RoundTrip ==
  /\ RoundTrips /\ phase = "refill" /\ cur.a # 0
  /\ (K = 0 => win = <<>>)
  /\ IF cur.kind = "vec"
     THEN \* unique by construction: the Vec-backed Bytes gives the allocation back
          /\ cur' = IF cur.len = cur.cap THEN [cur EXCEPT !.orig = OrigRepr(cur.off + cur.len)]
                    ELSE [cur EXCEPT !.orig = OrigRepr(cur.cap + cur.off)]
          /\ alloc' = alloc /\ lastAlloc' = FALSE
     ELSE IF alloc[cur.a].rc = 1
          THEN /\ cur' = [cur EXCEPT !.cap = alloc[cur.a].size - cur.off]
               /\ alloc' = alloc /\ lastAlloc' = FALSE
          ELSE \* not unique: copy into a fresh exact-size Vec (none for an empty view), release the old reference
               /\ Cardinality(FreeIds) >= 1
               /\ IF cur.len = 0
                  THEN /\ alloc' = Release(alloc, cur.a)
                       /\ cur' = NoCur /\ lastAlloc' = FALSE
                  ELSE LET al1 == Release(alloc, cur.a)
                           id == CHOOSE i \in Ids : ~al1[i].live /\ \A j \in Ids : ~al1[j].live => i <= j
                       IN /\ alloc' = [al1 EXCEPT ![id] = [live |-> TRUE, size |-> cur.len, rc |-> 1]]
                          /\ cur' = [a |-> id, kind |-> "vec", off |-> 0, len |-> cur.len, cap |-> cur.len, orig |-> OrigRepr(cur.len)]
                          /\ lastAlloc' = TRUE
  /\ UNCHANGED <<win, phase, violated>>

Next == Start \/ Refill \/ Consume \/ Retire \/ RoundTrip

Spec == Init /\ [][Next]_vars /\ WF_vars(Next)

LiveBytes == LET S == {i \in Ids : alloc[i].live} IN
             IF S = {} THEN 0 ELSE
             LET RECURSIVE Sum(_)
                 Sum(T) == IF T = {} THEN 0 ELSE LET x == CHOOSE y \in T : TRUE IN alloc[x].size + Sum(T \ {x})
             IN Sum(S)

SizeBounded == \A i \in Ids : alloc[i].live => alloc[i].size <= MaxSize
LiveBounded == LiveBytes <= MaxLive
EmptySoleReserveNoAlloc == ~violated
RcSane == \A i \in Ids : alloc[i].live => alloc[i].rc >= 1
\* for K = 0: no reachable cycle contains a byte-buffer allocation
NoSteadyAlloc == <>[](~lastAlloc)
=============================================================================

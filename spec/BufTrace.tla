------------------------------ MODULE BufTrace ------------------------------
(***************************************************************************)
(* Trace validator for cursor / sink programs (binding V for C09-C12).     *)
(* One state per recorded event; every law of BufLaws is evaluated at      *)
(* every step; violations are printed as LAWVIOL lines.                    *)
(***************************************************************************)
EXTENDS BufLaws, Json, IOUtils

Rec == ndJsonDeserialize(IOEnv.TRACE)

VARIABLES l, T, side, pid, tainted, nviol, cnt
vars == <<l, T, side, pid, tainted, nviol, cnt>>

Bump(c, ks) == [k \in DOMAIN c \cup ks |-> (IF k \in DOMAIN c THEN c[k] ELSE 0) + (IF k \in ks THEN 1 ELSE 0)]

Init == /\ l = 1 /\ T = [k |-> "gone", limit |-> 0] /\ side = "buf" /\ pid = -1 /\ tainted = {} /\ nviol = 0
        /\ cnt = [x \in {} |-> 0]

Next ==
  /\ l <= Len(Rec)
  /\ LET e == Rec[l]
         \* the process died (abort) or the operation did not return (hang): no cursor / sink law
         \* allows either -- every operation returns or panics
         dead == IF side = "buf"
                 THEN {<<"C09", "returns_or_panics">>} \cup (IF e.op = "get" THEN {<<"C10", "returns_or_panics">>} ELSE {})
                      \cup (IF HasAdapter(T) \/ e.op \in {"read", "fill_buf", "consume"} THEN {<<"C12", "returns_or_panics">>} ELSE {})
                 ELSE {<<"C11", "returns_or_panics">>} \cup (IF HasAdapter(T) \/ e.op = "write" THEN {<<"C12", "returns_or_panics">>} ELSE {})
         R == IF e.op = "reset" THEN [V |-> {}]
              ELSE IF e.out \in {"abort", "hang"} THEN [V |-> dead]
              ELSE IF side = "buf" THEN BufStep(T, e) ELSE MutStep(T, e)
         newV == {v \in R.V : v[1] \notin tainted}     \* first violation per property and program
         report == newV # {}
     IN /\ T' = e.tree
        /\ side' = IF e.op = "reset" THEN e.side ELSE side
        /\ pid' = IF e.op = "reset" THEN e.pid ELSE pid
        /\ tainted' = IF e.op = "reset" THEN {} ELSE (tainted \cup {v[1] : v \in R.V})
        /\ nviol' = nviol + (IF report THEN 1 ELSE 0)
        /\ cnt' = Bump(cnt, {e.op} \cup (IF e.op = "reset" THEN {} ELSE {e.out}))
        /\ (report => PrintT(<<"LAWVIOL", pid, e.i, e.op, newV>>))
        /\ (l = Len(Rec) => PrintT(<<"DONE", Len(Rec), nviol', cnt'>>))
  /\ l' = l + 1
=============================================================================

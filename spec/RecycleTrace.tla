---------------------------- MODULE RecycleTrace ----------------------------
(***************************************************************************)
(* C18 window laws on recorded recycling histories (binding V).  A history *)
(* of 100 N rounds of a periodic pattern is summarised by the allocator    *)
(* ledger at N, 10 N and 100 N rounds:                                     *)
(*   window_peak         the peak of live heap bytes in (10N, 100N] does   *)
(*                       not exceed the peak in [0, 10N]                   *)
(*   window_noalloc      if every consumed part is dropped before the next *)
(*                       refill (retention window 0) no byte buffer is     *)
(*                       allocated in (10N, 100N]                          *)
(*   sole_empty_reclaims a reserve(n) on an empty handle that is alone on  *)
(*                       an allocation of size >= n never allocates        *)
(* These laws tolerate any benign growth policy and fail exactly on        *)
(* per-round creep.                                                        *)
(***************************************************************************)
EXTENDS Integers, Sequences, FiniteSets, TLC, Json, IOUtils

Rec == ndJsonDeserialize(IOEnv.TRACE)
VARIABLES l, ph, nviol, cnt
Max2(a, b) == IF a >= b THEN a ELSE b
Bump(c, k) == [x \in DOMAIN c \cup {k} |-> (IF x \in DOMAIN c THEN c[x] ELSE 0) + (IF x = k THEN 1 ELSE 0)]
Init == l = 1 /\ ph = <<>> /\ nviol = 0 /\ cnt = [x \in {} |-> 0]

Laws(e, phs) ==
  IF e.k # "recycle" THEN (IF e.k = "recycle_end" /\ e.live # 0 THEN {<<"C18", "no_leak">>} ELSE {})
  ELSE (IF e.sole_empty_allocs # 0 THEN {<<"C18", "sole_empty_reclaims">>} ELSE {})
       \cup (IF e.phase = 2 /\ Len(phs) = 2
             THEN (IF e.peak > Max2(phs[1].peak, phs[2].peak) THEN {<<"C18", "window_peak">>} ELSE {})
                  \cup (IF e.window = 0 /\ e.allocs # 0 THEN {<<"C18", "window_noalloc">>} ELSE {})
             ELSE {})

Next ==
  /\ l <= Len(Rec)
  /\ LET e == Rec[l]
         V == Laws(e, ph)
     IN /\ ph' = IF e.k = "recycle_start" THEN <<>> ELSE IF e.k = "recycle" THEN Append(ph, e) ELSE ph
        /\ nviol' = nviol + (IF V # {} THEN 1 ELSE 0)
        /\ cnt' = Bump(cnt, e.k)
        /\ (V # {} => PrintT(<<"LAWVIOL", e.pid, l, e.k, V>>))
        /\ (l = Len(Rec) => PrintT(<<"DONE", Len(Rec), nviol', cnt'>>))
  /\ l' = l + 1
=============================================================================

CONSTANTS
  MAXW = 1073741823
  IMAXW = 536870911
  NativeLE = TRUE
  Side = "buf"
  MaxDepth = 2
  MaxLeaves = 2
  MaxOps = 2
  LeafTypes = {"slice", "bytes", "deque", "chunked", "cursor"}
  LeafLens = {0, 2, 3}
  OpNames = {"remaining", "chunk", "advance", "chunks_vectored", "copy_to_bytes", "try_copy_to_slice"}
  GetNames = {}
  Ns = {0}
  Emit = FALSE
  SampleK = 1
  Wraps = {"ref"}
  RootLimitOnly = FALSE
  DesignMutation = "none"
INIT DInit
NEXT DNext
INVARIANT LawsAccept
CHECK_DEADLOCK FALSE

//! Instrumented drop-in for the subset of `portable-atomic` that tokio-rs/bytes uses
//! (`src/loom.rs`, feature `extra-platforms`).  Every operation (i) calls the installed hook
//! with phase 0 *before* it happens (a scheduler yield point), (ii) performs the real
//! operation on a `core` atomic, (iii) calls the hook with phase 1 and the values observed.
//! With no hook installed it behaves exactly like `core::sync::atomic`.
#![no_std]

pub use core::sync::atomic::Ordering;
use core::sync::atomic as ca;

#[derive(Clone, Copy, Debug)]
pub struct AtomicEv {
    /// address of the atomic variable
    pub loc: usize,
    /// 0 load, 1 fetch_add, 2 fetch_sub, 3 compare_exchange, 4 get_mut, 5 store
    pub kind: u8,
    pub is_ptr: bool,
    pub ord: Ordering,
    pub ord_fail: Ordering,
    /// value read (phase 1)
    pub old: usize,
    /// value written (phase 1; = old if nothing was written)
    pub new: usize,
    /// compare_exchange succeeded / RMW performed
    pub ok: bool,
    pub file: &'static str,
    pub line: u32,
}

pub type Hook = fn(phase: u8, ev: &AtomicEv);

static HOOK: ca::AtomicUsize = ca::AtomicUsize::new(0);

pub fn set_hook(h: Option<Hook>) {
    HOOK.store(h.map(|f| f as usize).unwrap_or(0), Ordering::SeqCst);
}

#[inline]
fn hook() -> Option<Hook> {
    let h = HOOK.load(Ordering::Relaxed);
    if h == 0 {
        None
    } else {
        Some(unsafe { core::mem::transmute::<usize, Hook>(h) })
    }
}

/// `compare_exchange_weak` may fail spuriously (C11; LL/SC hardware does it under contention).
/// When a hook is installed every other call fails although the value matched, so that code
/// which treats a failed weak CAS as "another thread won" is exercised; a retry loop simply
/// succeeds on its next attempt.
static SPURIOUS: core::sync::atomic::AtomicUsize = core::sync::atomic::AtomicUsize::new(0);
fn spurious() -> bool {
    hook().is_some() && SPURIOUS.fetch_add(1, core::sync::atomic::Ordering::Relaxed) % 2 == 0
}

macro_rules! traced {
    ($loc:expr, $kind:expr, $isptr:expr, $ord:expr, $ordf:expr, $body:expr) => {{
        let caller = core::panic::Location::caller();
        match hook() {
            None => {
                let (old, new, ok): (usize, usize, bool) = $body;
                let _ = (new, ok);
                (old, ok)
            }
            Some(h) => {
                let mut ev = AtomicEv {
                    loc: $loc,
                    kind: $kind,
                    is_ptr: $isptr,
                    ord: $ord,
                    ord_fail: $ordf,
                    old: 0,
                    new: 0,
                    ok: false,
                    file: caller.file(),
                    line: caller.line(),
                };
                h(0, &ev);
                let (old, new, ok): (usize, usize, bool) = $body;
                ev.old = old;
                ev.new = new;
                ev.ok = ok;
                h(1, &ev);
                (old, ok)
            }
        }
    }};
}

#[repr(transparent)]
pub struct AtomicUsize(ca::AtomicUsize);

impl AtomicUsize {
    #[inline]
    pub const fn new(v: usize) -> Self {
        AtomicUsize(ca::AtomicUsize::new(v))
    }
    #[track_caller]
    pub fn load(&self, ord: Ordering) -> usize {
        traced!(self as *const _ as usize, 0, false, ord, ord, {
            let v = self.0.load(ord);
            (v, v, false)
        })
        .0
    }
    #[track_caller]
    pub fn store(&self, val: usize, ord: Ordering) {
        traced!(self as *const _ as usize, 5, false, ord, ord, {
            self.0.store(val, ord);
            (val, val, true)
        });
    }
    #[track_caller]
    pub fn fetch_add(&self, val: usize, ord: Ordering) -> usize {
        traced!(self as *const _ as usize, 1, false, ord, ord, {
            let v = self.0.fetch_add(val, ord);
            (v, v.wrapping_add(val), true)
        })
        .0
    }
    #[track_caller]
    pub fn fetch_sub(&self, val: usize, ord: Ordering) -> usize {
        traced!(self as *const _ as usize, 2, false, ord, ord, {
            let v = self.0.fetch_sub(val, ord);
            (v, v.wrapping_sub(val), true)
        })
        .0
    }
    #[track_caller]
    pub fn compare_exchange(
        &self,
        current: usize,
        new: usize,
        success: Ordering,
        failure: Ordering,
    ) -> Result<usize, usize> {
        let (old, ok) = traced!(self as *const _ as usize, 3, false, success, failure, {
            match self.0.compare_exchange(current, new, success, failure) {
                Ok(v) => (v, new, true),
                Err(v) => (v, v, false),
            }
        });
        if ok {
            Ok(old)
        } else {
            Err(old)
        }
    }
    #[track_caller]
    pub fn compare_exchange_weak(
        &self,
        current: usize,
        new: usize,
        success: Ordering,
        failure: Ordering,
    ) -> Result<usize, usize> {
        let (old, ok) = traced!(self as *const _ as usize, 3, false, success, failure, {
            if spurious() {
                let v = self.0.load(failure);
                (v, v, false)
            } else {
                match self.0.compare_exchange(current, new, success, failure) {
                    Ok(v) => (v, new, true),
                    Err(v) => (v, v, false),
                }
            }
        });
        if ok {
            Ok(old)
        } else {
            Err(old)
        }
    }
    #[track_caller]
    pub fn get_mut(&mut self) -> &mut usize {
        let loc = self as *const _ as usize;
        let cur = *self.0.get_mut();
        traced!(loc, 4, false, Ordering::Relaxed, Ordering::Relaxed, { (cur, cur, false) });
        self.0.get_mut()
    }
}

#[repr(transparent)]
pub struct AtomicPtr<T>(ca::AtomicPtr<T>);

impl<T> AtomicPtr<T> {
    #[inline]
    pub const fn new(p: *mut T) -> Self {
        AtomicPtr(ca::AtomicPtr::new(p))
    }
    #[track_caller]
    pub fn load(&self, ord: Ordering) -> *mut T {
        traced!(self as *const _ as usize, 0, true, ord, ord, {
            let v = self.0.load(ord) as usize;
            (v, v, false)
        })
        .0 as *mut T
    }
    #[track_caller]
    pub fn store(&self, val: *mut T, ord: Ordering) {
        traced!(self as *const _ as usize, 5, true, ord, ord, {
            self.0.store(val, ord);
            (val as usize, val as usize, true)
        });
    }
    #[track_caller]
    pub fn compare_exchange(
        &self,
        current: *mut T,
        new: *mut T,
        success: Ordering,
        failure: Ordering,
    ) -> Result<*mut T, *mut T> {
        let (old, ok) = traced!(self as *const _ as usize, 3, true, success, failure, {
            match self.0.compare_exchange(current, new, success, failure) {
                Ok(v) => (v as usize, new as usize, true),
                Err(v) => (v as usize, v as usize, false),
            }
        });
        if ok {
            Ok(old as *mut T)
        } else {
            Err(old as *mut T)
        }
    }
    #[track_caller]
    pub fn compare_exchange_weak(
        &self,
        current: *mut T,
        new: *mut T,
        success: Ordering,
        failure: Ordering,
    ) -> Result<*mut T, *mut T> {
        let (old, ok) = traced!(self as *const _ as usize, 3, true, success, failure, {
            if spurious() {
                let v = self.0.load(failure);
                (v as usize, v as usize, false)
            } else {
                match self.0.compare_exchange(current, new, success, failure) {
                    Ok(v) => (v as usize, new as usize, true),
                    Err(v) => (v as usize, v as usize, false),
                }
            }
        });
        if ok {
            Ok(old as *mut T)
        } else {
            Err(old as *mut T)
        }
    }
    #[track_caller]
    pub fn get_mut(&mut self) -> &mut *mut T {
        let loc = self as *const _ as usize;
        let cur = *self.0.get_mut() as usize;
        traced!(loc, 4, true, Ordering::Relaxed, Ordering::Relaxed, { (cur, cur, false) });
        self.0.get_mut()
    }
}

impl<T> core::fmt::Debug for AtomicPtr<T> {
    fn fmt(&self, f: &mut core::fmt::Formatter<'_>) -> core::fmt::Result {
        f.write_str("AtomicPtr")
    }
}
impl core::fmt::Debug for AtomicUsize {
    fn fmt(&self, f: &mut core::fmt::Formatter<'_>) -> core::fmt::Result {
        f.write_str("AtomicUsize")
    }
}

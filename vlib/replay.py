"""./check replay <file>: re-run a saved counterexample on /repo's current tree and judge it
again with the law module.  Exit 1 (and a VIOLATION line) if it still violates."""
import json, os, sys
from . import common as C


def run(path):
    r = json.load(open(path))
    prop, kind = r["property"], r["kind"]
    viols = []
    if kind == "handles":
        from . import handles as H
        wd = C.workdir("replay")
        if r.get("program"):
            pf = os.path.join(wd, "prog.ndjson")
            json.dump(dict(r["program"], pid=0), open(pf, "w"))
            args = ["--programs", pf]
        else:
            a = list(r["harness_args"])
            i = a.index("--nprog")
            a[i + 1] = str(r["pid"] + 1)
            args = a + ["--start", str(r["pid"])]
        feats = r.get("features")
        res = H.run_config("replay", r["profile"], args, features=None if feats in (None, ["default"], ["no-default-features"]) else feats,
                           no_default=feats == ["no-default-features"])
        viols = [v for v in res["violations"] if any(p == prop for p, _ in v["laws"])]
    elif kind == "cursors":
        from . import cursors as K
        res = K.run_and_validate("replay", [r["program"]], profile=r.get("profile", "debug"))
        viols = [v for v in res["violations"] if any(p == prop for p, _ in v["laws"])]
    elif kind == "threads":
        from . import threads as T
        res = T.run("replay", [r["program"]], 600, random_runs=200)
        viols = [v for v in res["violations"] if any(p == prop for p, _ in v["laws"])]
    elif kind == "pure":
        from . import pure as P
        res = P.run_mode(prop, r["mode"], "quick", r.get("seed", 1))
        viols = [v for v in res["violations"] if any(p == prop for p, _ in v["laws"])]
    elif kind == "recycle":
        from . import recycle as R
        res = R.run_patterns("replay", [r["pattern"]])
        viols = [v for v in res["violations"] if any(p == prop for p, _ in v["laws"])]
    elif kind == "hostile":
        from . import hostile as X
        res = X.run("replay", [r["case"]], r.get("profile", "release"))
        viols = [v for v in res["violations"] if any(p == prop for p, _ in v["laws"])]
    elif kind == "configs":
        from . import props
        return props.run("C16", "quick", C.seed_from_env())
    else:
        raise C.ToolError("unknown replay kind %s" % kind)
    if viols:
        print("VIOLATION property=%s replay=%s" % (prop, path))
        print("  reproduced: %s" % json.dumps(viols[0])[:300])
        return 1
    print("replay of %s: no violation of %s on the current tree" % (path, prop))
    return 0

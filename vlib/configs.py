"""C16: configuration independence.  The same programs are replayed in several configurations
(allocator parity x build profile x feature set); every trace is judged by the law modules on
its own, and pairs of traces are compared step by step by spec/ConfigEquiv.tla."""
import json, os, re, time
from . import common as C
from . import handles as H


def zip_traces(a, b, out):
    la = [ln for ln in open(a)]
    lb = [ln for ln in open(b)]
    n = min(len(la), len(lb))
    with open(out, "w") as f:
        for i in range(n):
            f.write('{"len_differs":%s,"a":%s,"b":%s}\n' % ("true" if (i == n - 1 and len(la) != len(lb)) else "false", la[i].strip(), lb[i].strip()))
    return n


def compare(tag, a, b):
    wd = C.workdir("configs")
    z = os.path.join(wd, tag + ".zip.ndjson")
    n = zip_traces(a, b, z)
    t0 = time.time()
    rc, out = C.run_tlc("ConfigEquiv", "ConfigEquiv.cfg", os.path.join(C.WORK, "tlc_" + tag), workers=1, env_extra={"TRACE": z}, timeout=1800, heap="8g")
    tuples = C.tlc_tuples(out)
    done = [t for t in tuples if re.match(r'<<\s*"DONE"', t)]
    if not done or C.tlc_failed(out):
        raise C.ToolError("TLC did not consume %s:\n%s" % (z, "\n".join(out.split("\n")[-30:])))
    viols = [v for v in (C.parse_lawviol(t) for t in tuples if re.match(r'<<\s*"LAWVIOL"', t)) if v]
    C.log("[configs] %s: %d steps compared, %d diverging programs, TLC %.1fs" % (tag, n, len(viols), time.time() - t0))
    return {"tag": tag, "steps": n, "violations": viols, "tlc": C.tlc_stats(out), "zip": z}

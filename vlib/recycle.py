"""C18: recycling keeps memory and allocations bounded.  (MC) spec/Recycle.tla: the complete
finite state graph of the capacity bookkeeping => every history length; (G+V) periodic
patterns at real scale for N, 10N, 100N rounds judged by spec/RecycleTrace.tla."""
import json, os, random, re, subprocess, time
from . import common as C


def mc(tag, k, tier, minimal_cap=8, maxmsg=3, caps=(0, 1, 5, 8), temporal=True):
    wd = C.workdir("recycle")
    cfg = os.path.join(wd, tag + ".cfg")
    with open(cfg, "w") as f:
        f.write("CONSTANTS\n  K = %d\n  MaxMsg = %d\n  Caps0 = {%s}\n  NA = %d\n  MaxSize = 40\n  MaxLive = %d\n  MinCap = %d\n"
                % (k, maxmsg, ",".join(str(c) for c in caps), k + 3, 40 * (k + 2), minimal_cap))
        f.write("  OrigMinW = 2\n  OrigMaxW = 4\n  MaxLeft = 2\n  RoundTrips = TRUE\nSPECIFICATION Spec\n")
        f.write("INVARIANTS SizeBounded LiveBounded EmptySoleReserveNoAlloc RcSane\n")
        if temporal and k == 0:
            f.write("PROPERTY NoSteadyAlloc\n")
        f.write("CHECK_DEADLOCK FALSE\n")
    t0 = time.time()
    rc, out = C.run_tlc("Recycle", cfg, os.path.join(C.WORK, "tlc_" + tag), workers=8, timeout=2400, java_opts="-Xss64m", heap="10g")
    st = C.tlc_stats(out)
    m = re.search(r"Invariant (\w+) is violated|Temporal properties were violated", out)
    if m:
        raise C.ToolError("the design model Recycle.tla violates %s (%s) — the specification, not the code, needs attention:\n%s"
                          % (m.group(1) or "NoSteadyAlloc", tag, "\n".join(out.split("\n")[-50:])))
    if C.tlc_failed(out) or st["generated"] == 0:
        raise C.ToolError("TLC failed on Recycle (%s):\n%s" % (tag, "\n".join(out.split("\n")[-30:])))
    C.log("[recycle] MC %s: %d states, %d transitions (%.1fs)" % (tag, st["distinct"], st["generated"], time.time() - t0))
    return {"tag": tag, "K": k, "distinct": st["distinct"], "generated": st["generated"], "depth": st["depth"], "min_cap": minimal_cap,
            "temporal": bool(temporal and k == 0)}


def patterns(tier, seed):
    rnd = random.Random(seed)
    n = 1000 if tier == "quick" else 10000
    ps = [
        {"cap0": 0, "msgs": [100, 30, 64], "takes": [90, 40, 64], "mode": "split_to", "window": 0, "n": n},
        {"cap0": 4096, "msgs": [1000, 1000], "takes": [900, 1100], "mode": "advance", "window": 0, "n": n},
        {"cap0": 64, "msgs": [50, 3], "takes": [50, 3], "mode": "split", "freeze": True, "window": 2, "n": n},
        {"cap0": 1024, "msgs": [700], "takes": [700], "mode": "truncate", "roundtrip": 1, "window": 0, "n": n},
        {"cap0": 65536, "msgs": [4000, 9000, 100], "takes": [4000, 9000, 100], "mode": "split", "freeze": True, "roundtrip": 3, "window": 0, "n": n},
        {"cap0": 16, "msgs": [5000], "takes": [5000], "mode": "split_to", "unsplit": True, "window": 0, "n": n},
        {"cap0": 8192, "msgs": [3000], "takes": [3000], "mode": "copy_to_bytes", "window": 0, "n": n},
        {"cap0": 0, "msgs": [700, 90], "takes": [600, 190], "mode": "copy_to_bytes", "window": 1, "n": n},
        {"cap0": 2048, "msgs": [1500, 200], "takes": [1400, 300], "mode": "split_to", "freeze": True, "window": 1, "n": n},
    ]
    ps += [
        {"cap0": 1024, "msgs": [600], "takes": [600], "mode": "split_to", "freeze": True, "roundtrip": 1, "window": 1, "n": n},
        {"cap0": 0, "msgs": [3000, 40], "takes": [2900, 140], "mode": "split_to", "freeze": False, "roundtrip": 2, "window": 2, "n": n},
        {"cap0": 8192, "msgs": [512], "takes": [512], "mode": "split", "freeze": True, "roundtrip": 1, "unsplit": False, "window": 3, "n": n},
    ]
    # the buffer is filled to exactly its capacity and consumed completely (a handle with capacity() == 0
    # that still owns the whole allocation in front of it)
    ps += [{"cap0": c, "msgs": [c], "takes": [c], "mode": m, "window": 0, "n": n}
           for (c, m) in ((64, "advance"), (1024, "advance"), (4096, "split_to"), (1024, "copy_to_bytes"), (64, "truncate"))]
    ps.append({"cap0": 1024, "msgs": [1000, 24], "takes": [0, 1024], "mode": "advance", "window": 0, "n": n})
    count = 6 if tier == "quick" else 40
    for _ in range(count):
        period = rnd.randint(1, 5)
        msgs = [rnd.choice([1, 7, 63, 64, 65, 500, 1023, 1024, 1025, 4096, 20000, 65536]) for _ in range(period)]
        takes = list(msgs)
        if rnd.random() < 0.5 and period > 1:
            # bounded leftover: move some bytes of one round's consumption to the next round
            i = rnd.randrange(period - 1)
            d = min(takes[i] - 0, rnd.choice([1, 10, 100]))
            d = min(d, takes[i])
            takes[i] -= d
            takes[i + 1] += d
        ps.append({"cap0": rnd.choice([0, 1, 64, 1000, 1024, 4096, 65536]), "msgs": msgs, "takes": takes,
                   "mode": rnd.choice(["split_to", "split", "copy_to_bytes", "advance", "truncate"]), "freeze": rnd.random() < 0.4,
                   "roundtrip": rnd.choice([0, 0, 1, 2, 7]), "unsplit": rnd.random() < 0.2, "window": rnd.choice([0, 0, 0, 1, 2, 5]),
                   "reserve_extra": rnd.choice([0, 0, 1, 64]), "n": n})
    for p in ps:
        if p["mode"] in ("truncate", "split"):
            p["takes"] = list(p["msgs"])
    return ps


def run_patterns(tag, ps, profile="release"):
    binp = C.build("vh-handles", profile=profile)
    wd = C.workdir("recycle")
    pf = os.path.join(wd, tag + ".patterns.ndjson")
    with open(pf, "w") as f:
        for p in ps:
            f.write(json.dumps(p) + "\n")
    trace = os.path.join(wd, tag + ".ndjson")
    if os.path.exists(trace):
        os.remove(trace)
    t0 = time.time()
    r = subprocess.run([binp, "--recycle", pf, "--out", trace], stdout=subprocess.PIPE, stderr=subprocess.PIPE, timeout=3000)
    if r.returncode != 0:
        raise C.ToolError("recycle driver failed rc=%s %s" % (r.returncode, r.stderr.decode()[-300:]))
    lines = [ln for ln in open(trace) if ln.startswith("{")]
    with open(trace, "w") as f:
        f.writelines(lines)
    t1 = time.time()
    rc, out = C.run_tlc("RecycleTrace", "RecycleTrace.cfg", os.path.join(C.WORK, "tlc_" + tag), workers=1, env_extra={"TRACE": trace}, timeout=600)
    tuples = C.tlc_tuples(out)
    done = [t for t in tuples if re.match(r'<<\s*"DONE"', t)]
    if not done or C.tlc_failed(out):
        raise C.ToolError("TLC did not consume %s:\n%s" % (trace, "\n".join(out.split("\n")[-30:])))
    viols = []
    for t in tuples:
        mm = re.match(r'<<\s*"LAWVIOL",\s*(\d+),\s*(\d+),\s*"([^"]*)",\s*\{(.*)\}\s*>>', t)
        if mm:
            viols.append({"pid": int(mm.group(1)), "line": int(mm.group(2)), "laws": re.findall(r'<<\s*"([^"]+)",\s*"([^"]+)"\s*>>', mm.group(4))})
    rounds = sum(100 * p["n"] for p in ps)
    C.log("[recycle] %s: %d patterns, %d rounds, %d violating; run %.1fs, TLC %.1fs" % (tag, len(ps), rounds, len(viols), t1 - t0, time.time() - t1))
    return {"tag": tag, "patterns": ps, "rounds": rounds, "violations": viols, "trace": trace, "tlc": C.tlc_stats(out), "events": len(lines)}


def report(prop, mcs, res, tier, seed, t0, assumptions):
    rc = 0
    nnew = 0
    for v in res["violations"]:
        laws = [l for (p, l) in v["laws"] if p == prop]
        if not laws:
            continue
        nnew += 1
        p = res["patterns"][v["pid"]]
        evs = [json.loads(ln) for ln in open(res["trace"]) if '"pid":%d,' % v["pid"] in ln]
        path = C.save_replay(prop, "%s_p%d" % (res["tag"], v["pid"]), {"property": prop, "kind": "recycle", "laws": laws, "pattern": p, "events": evs})
        print("VIOLATION property=%s replay=%s" % (prop, path))
        print("  law(s) %s violated by pattern %s" % (",".join(laws), json.dumps(p)))
        rc = 1
    cov = {
        "states": sum(m["distinct"] for m in mcs) + res["tlc"]["distinct"],
        "transitions": sum(m["generated"] for m in mcs) + res["tlc"]["generated"],
        "traces_validated_against_impl": len(res["patterns"]),
        "samples": res["patterns"][:3],
        "evaluations": res["rounds"],
        "distinct_nontrivial": len({json.dumps(p, sort_keys=True) for p in res["patterns"]}),
        "rule": "one evaluation = one refill/consume round executed on a real BytesMut; a pattern (initial capacity, message sizes, consumption "
                "mode, freeze, round trips, unsplit, retention window) is run for N, 10N and 100N rounds and the ledger counters of the three "
                "windows are judged by spec/RecycleTrace.tla; distinct = distinct patterns",
        "design_model": mcs,
        "exhaustive": False,
    }
    C.write_evidence(prop, tier, seed, "model_checking", cov, assumptions, time.time() - t0, nnew)
    return rc

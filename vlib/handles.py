"""Handle-program checks (C01-C04, C07, C08, C13, parts of C16/C18): run programs on the real
Bytes/BytesMut through the harness, validate the recorded traces with TLC against
spec/BytesLaws.tla, and report per property."""
import json, os, subprocess, time, re
from . import common as C

HANDLE_PROPS = ["C01", "C02", "C03", "C04", "C07", "C08", "C13"]


def run_harness(binp, args, outfile, timeout=600, max_restarts=60):
    """Run vh-handles, restarting after a crash of the code under test.  A crash inside an
    operation becomes an `abort` event (data for the law monitor, not a tool error)."""
    if os.path.exists(outfile):
        os.remove(outfile)
    start = None
    crashes = []
    base_start = 0
    for a in range(len(args)):
        if args[a] == "--start":
            base_start = int(args[a + 1])
    for attempt in range(max_restarts):
        cmd = [binp] + list(args) + ["--out", outfile]
        if start is not None:
            cmd += ["--start", str(start)]
        in_obs = False
        try:
            r = subprocess.run(cmd, stdout=subprocess.PIPE, stderr=subprocess.PIPE, timeout=timeout)
            rc = r.returncode
            tail = [ln for ln in r.stderr.decode(errors="replace")[-400:].split("\n") if ln.startswith("#obs")]
            in_obs = bool(tail) and tail[-1] == "#obs"
        except subprocess.TimeoutExpired:
            rc = -999
        if rc == 0:
            return crashes
        if rc == 2:
            raise C.ToolError("harness usage error: %s" % r.stderr.decode()[-500:])
        # crashed (signal) or hung: find the operation in progress
        lines = open(outfile, errors="replace").read().split("\n") if os.path.exists(outfile) else []
        last_intent = None
        nreset = 0
        last_pid = None
        seen_after = False
        for ln in lines:
            if ln.startswith("#intent "):
                last_intent = ln[len("#intent "):]
                seen_after = False
            elif ln.startswith('{"i":0,"op":"reset"'):
                nreset += 1
                m = re.search(r'"pid":(\d+)', ln)
                last_pid = int(m.group(1)) if m else None
            elif ln.startswith("{") and last_intent is not None:
                seen_after = True
        # truncate a possibly half-written last line
        good = [ln for ln in lines if ln.startswith("#") or (ln.startswith("{") and ln.endswith("}"))]
        with open(outfile, "w") as f:
            for ln in good:
                f.write(ln + "\n")
            if last_intent is not None and not seen_after:
                ev = json.loads(last_intent)
                ev["out"]["sig"] = rc
                if in_obs:
                    ev["out"]["v"] = -8      # the operation returned; reading the handles afterwards crashed
                f.write(json.dumps(ev, separators=(",", ":")) + "\n")
                crashes.append({"pid": last_pid, "i": ev["i"], "op": ev["op"], "rc": rc})
            else:
                # died outside an operation (teardown/observation): still data, but attribute
                # it to the program as an abort of a pseudo operation
                f.write(json.dumps({"i": 9999, "op": "drop", "h": 0, "ty": "-", "args": {"x": 0, "y": 0, "mode": 0, "o": 0, "val": 0},
                                    "out": {"k": "abort", "new": [], "v": -9, "sig": rc}, "mem": [], "obs": [], "own": []}, separators=(",", ":")) + "\n")
                crashes.append({"pid": last_pid, "i": -1, "op": "?", "rc": rc})
        if last_pid is None:
            raise C.ToolError("harness died before the first program (rc=%s)" % rc)
        start = last_pid + 1 if "--random" in args else (base_start + nreset)
    # the code under test crashes in (nearly) every program: that is data, not a tool error; the
    # programs run so far are validated and the rest of the batch is dropped
    C.log("[handles] %d crashes: remaining programs of this batch dropped" % len(crashes))
    return crashes


def clean_trace(raw, clean):
    n = 0
    with open(raw, errors="replace") as f, open(clean, "w") as g:
        for ln in f:
            if ln.startswith("{"):
                g.write(ln)
                n += 1
    return n


def validate(trace, tag, module="BytesTrace", cfg="BytesTrace.cfg", timeout=1800):
    """TLC trace validation; returns (violations, counts, stats, raw output)."""
    nlines = sum(1 for _ in open(trace))
    if nlines == 0:
        raise C.ToolError("empty trace " + trace)
    tuples, stats, total = C.run_tlc_parallel(module, cfg, trace, tag, lambda ln: ln.startswith('{"i":0,"op":"reset"'),
                                              nparts=8 if nlines > 30000 else 1, timeout=timeout, heap="4g")
    if total != nlines:
        raise C.ToolError("TLC consumed %d of %d events" % (total, nlines))
    viols = [v for v in (C.parse_lawviol(t) for t in tuples if "LAWVIOL" in t[:14]) if v]
    counts = {}
    for t in tuples:
        if re.match(r'<<\s*"DONE"', t):
            for k, n in C.parse_counts(t).items():
                counts[k] = counts.get(k, 0) + n
    return viols, counts, stats, ""


def extract_program(trace, pid):
    """events of program `pid` from a clean trace"""
    evs = []
    on = False
    for ln in open(trace):
        if ln.startswith('{"i":0,"op":"reset"'):
            m = re.search(r'"pid":(\d+)', ln)
            on = (m and int(m.group(1)) == pid)
        if on:
            evs.append(json.loads(ln))
    return evs


def classify(trace):
    """distinct (op, outcome, target class) triples actually executed — the measured
    `distinct_nontrivial` of the evidence: a case is non-trivial if it ran an operation on a
    live handle (or constructed one); distinct by operation, outcome, storage class of the
    target (static/owner/heap/none), length class (0/1/2+), spare class and sharing."""
    seen = set()
    nev = 0
    view = {}
    for ln in open(trace):
        e = json.loads(ln)
        if e["op"] == "reset":
            view = {}
            continue
        if e["op"] == "end":
            continue
        nev += 1
        h = e.get("h", 0)
        p = view.get(h)
        if p is None:
            cls = ("-",)
        else:
            a = p["a"]
            st = "heap" if a > 0 else ("static" if a == -1 else ("none" if a == -100 else "owner"))
            shared = sum(1 for g, q in view.items() if g != h and q["a"] == a and a > 0) > 0
            cls = (p["ty"], st, min(p["len"], 2), min(max(p["cap"] - p["len"], 0), 2), min(p["off"], 1), shared)
        seen.add((e["op"], e["out"]["k"], cls))
        view = {o["h"]: o for o in e.get("obs", [])}
    return nev, len(seen)


def sample_events(trace, pid=None, n=6):
    out = []
    for ln in open(trace):
        e = json.loads(ln)
        if e["op"] in ("reset", "end"):
            if len(out) >= n:
                break
            continue
        out.append({"op": e["op"], "h": e["h"], "args": {k: e["args"][k] for k in ("x", "y", "mode", "o") if k in e["args"]},
                    "out": e["out"]["k"], "handles_after": [[o["h"], o["ty"], o["a"], o["off"], o["len"], o["cap"]] for o in e["obs"]]})
        if len(out) >= n:
            break
    return out


def run_config(tag, profile, gen_args, features=None, no_default=False):
    """build + run + validate one configuration; returns a result dict"""
    binp = C.build("vh-handles", profile=profile, features=features, no_default=no_default)
    wd = C.workdir("handles")
    raw = os.path.join(wd, tag + ".raw.ndjson")
    clean = os.path.join(wd, tag + ".ndjson")
    t0 = time.time()
    crashes = run_harness(binp, gen_args, raw)
    nlines = clean_trace(raw, clean)
    t1 = time.time()
    viols, counts, stats, _ = validate(clean, tag)
    t2 = time.time()
    nev, distinct = classify(clean)
    nprog = sum(1 for ln in open(clean) if ln.startswith('{"i":0,"op":"reset"'))
    C.log("[handles] %s: %d programs, %d events, %d crashes, %d violating events; run %.1fs, TLC %.1fs" %
          (tag, nprog, nev, len(crashes), len(viols), t1 - t0, t2 - t1))
    return {"tag": tag, "profile": profile, "trace": clean, "gen_args": gen_args, "violations": viols, "counts": counts,
            "tlc": stats, "events": nev, "distinct": distinct, "programs": nprog, "crashes": crashes, "binary": binp,
            "features": features or ["default"]}


def report(prop, results, tier, seed, t0, extra_cov=None, assumptions=None, level="model_checking", mc=None):
    """Per-property verdict from the configurations' results. Returns the exit code."""
    hits = []
    for r in results:
        for v in r["violations"]:
            laws = [l for (p, l) in v["laws"] if p == prop]
            if laws:
                hits.append((r, v, laws))
    new = []
    for (r, v, laws) in hits:
        sig = {"op": v["op"], "laws": ",".join(sorted(laws)), "profile": r["profile"]}
        k = None
        for law in laws:
            k = C.match_known(prop, {"op": v["op"], "law": law, "profile": r["profile"]})
            if k:
                break
        if k:
            print("KNOWN-FINDING: property=%s %s" % (prop, k.get("what", k.get("line", ""))))
        else:
            new.append((r, v, laws, sig))
    rc = 0
    shown = set()
    for (r, v, laws, sig) in new:
        key = (sig["op"], sig["laws"])
        if key in shown and len(shown) >= 1:
            continue
        shown.add(key)
        prog = extract_program(r["trace"], v["pid"])
        program = None
        if "--programs" in r["gen_args"]:
            pfile = r["gen_args"][r["gen_args"].index("--programs") + 1]
            for n, ln in enumerate(open(pfile)):
                if n == v["pid"]:
                    program = json.loads(ln)
        path = C.save_replay(prop, "%s_p%d" % (r["tag"], v["pid"]),
                             {"property": prop, "kind": "handles", "laws": laws, "event": v["i"], "op": v["op"], "pid": v["pid"],
                              "profile": r["profile"], "features": r["features"], "harness_args": r["gen_args"], "program": program, "events": prog})
        print("VIOLATION property=%s replay=%s" % (prop, path))
        print("  law(s) %s violated at event %d (%s) of program %d, build %s" % (",".join(laws), v["i"], v["op"], v["pid"], r["profile"]))
        rc = 1
        if len(shown) >= 5:
            break
    # evidence
    counts = {}
    for r in results:
        for k, n in r["counts"].items():
            counts[k] = counts.get(k, 0) + n
    cov = {
        "states": sum(r["tlc"]["distinct"] for r in results) + (mc["distinct"] if mc else 0),
        "transitions": sum(r["tlc"]["generated"] for r in results) + (mc["generated"] if mc else 0),
        "traces_validated_against_impl": sum(r["programs"] for r in results),
        "samples": sample_events(results[0]["trace"]) if results else [],
        "evaluations": sum(r["events"] for r in results),
        "distinct_nontrivial": max([r["distinct"] for r in results] + [0]),
        "rule": "one evaluation = one API call executed on the real types with the full projected state logged and judged by "
                "spec/BytesLaws.tla in TLC; distinct = distinct (operation, outcome, target type, storage class, length class, "
                "spare class, front offset, shared?) tuples seen in one configuration",
        "configurations": [{"tag": r["tag"], "profile": r["profile"], "features": r["features"], "programs": r["programs"],
                            "events": r["events"], "crashes": len(r["crashes"]), "violating_events": len(r["violations"])} for r in results],
        "law_antecedent_counts": counts,
        "exhaustive": False,
    }
    if mc:
        cov["design_model"] = mc
    if extra_cov:
        cov.update(extra_cov)
    extra_viol = 0
    if extra_cov and "_extra_violations" in extra_cov:
        extra_viol = extra_cov.pop("_extra_violations")
    C.write_evidence(prop, tier, seed, level, cov, assumptions or [], time.time() - t0, len(new) + extra_viol)
    return rc

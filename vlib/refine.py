"""C03, design level, unbounded: spec/RefCount.tla is the release protocol of one buffer for any
number of handles.  (1) tlapm checks the proof of RefCount!Spec => []Safe (RefCountProofs.tla);
(2) TLC checks RefCount for 4 handles with every action taken (non-vacuity of the proof's
hypotheses); (3) TLC checks that the implementation-shaped model BytesImpl -- the one that is
replayed step by step on the real code -- refines RefCount buffer by buffer (MCRefine.tla).
A failure of any of these is a problem of the specification (ToolError), never a VIOLATION."""
import os, re, shutil, subprocess, time
from . import common as C
from . import design as D


def prove(timeout=900):
    wd = C.workdir("tlaps")
    for f in ("RefCount.tla", "RefCountProofs.tla"):
        shutil.copy(os.path.join(C.VERIF, "spec", f), os.path.join(wd, f))
    t0 = time.time()
    try:
        r = subprocess.run(["tlapm", "--threads", "6", "RefCountProofs.tla"], cwd=wd, stdout=subprocess.PIPE, stderr=subprocess.STDOUT,
                           text=True, timeout=timeout)
    except subprocess.TimeoutExpired:
        raise C.ToolError("tlapm timed out on RefCountProofs.tla")
    m = re.search(r"All (\d+) obligations? proved", r.stdout)
    if not m:
        raise C.ToolError("tlapm did not prove RefCountProofs.tla:\n" + r.stdout[-3000:])
    C.log("[tlaps] RefCountProofs: all %s obligations proved (%.1fs)" % (m.group(1), time.time() - t0))
    return {"tool": "tlapm", "module": "RefCountProofs.tla", "theorem": "Spec => []Safe (any set Handle, any number of steps)",
            "obligations_proved": int(m.group(1)), "seconds": round(time.time() - t0, 1)}


def mc_refcount():
    rc, out = C.run_tlc("MCRefCount", "MCRefCount.cfg", os.path.join(C.WORK, "tlc_refcount"), workers=2, timeout=300,
                        extra_args=["-coverage", "1"])
    st = C.tlc_stats(out)
    if C.tlc_failed(out) or "No error has been found" not in out:
        raise C.ToolError("TLC failed on RefCount:\n" + out[-2000:])
    never = []
    for m in re.finditer(r"<(\w+) line \d+, col \d+ to line \d+, col \d+ of module RefCount>: (\d+):(\d+)", out):
        if m.group(1) != "Init" and int(m.group(3)) == 0:
            never.append(m.group(1))
    if never:
        raise C.ToolError("RefCount actions never taken: %s" % never)
    return dict(st, handles=4, invariants=["Inv", "Safe"])


def refinement(tier):
    depth = 3 if tier == "quick" else 4
    wd = C.workdir("design")
    cfg = os.path.join(wd, "MCRefine.cfg")
    D.write_cfg(cfg, depth, 3, 5, 2, D.ALL_OPS, False, 1, parities=(0,), invariants=("LawsAccept", "OneCtl", "AbsInv"))
    s = open(cfg).read().replace("ACTION_CONSTRAINT EmitEdge\n", "PROPERTY Refines\n")
    open(cfg, "w").write(s)
    t0 = time.time()
    rc, out = C.run_tlc("MCRefine", cfg, os.path.join(C.WORK, "tlc_refine"), workers=10, timeout=600 if tier == "quick" else 3000,
                        java_opts="-Xss64m", heap="8g")
    st = C.tlc_stats(out)
    if "is violated" in out:
        raise C.ToolError("BytesImpl does not refine RefCount (the specification needs attention):\n" + out[-3000:])
    if C.tlc_failed(out) or "No error has been found" not in out:
        raise C.ToolError("TLC failed on MCRefine:\n" + out[-2000:])
    C.log("[refine] BytesImpl => RefCount per buffer: %d states, depth %d (%.1fs)" % (st["distinct"], depth, time.time() - t0))
    return dict(st, depth=depth, property="Refines: every BytesImpl transition is, for every byte buffer, a RefCount step or a stutter",
                invariants=["OneCtl", "AbsInv (RefCount!Inv of the abstraction)"])


def run(tier):
    return {"proof": prove(), "protocol_model": mc_refcount(), "refinement": refinement(tier)}

"""Design model BytesImpl.tla: exhaustive TLC check (design => laws) and program generator
(binding G), plus the design-conformance comparison (binding D)."""
import json, os, re, time
from . import common as C

ALL_OPS = ["b_new", "b_static", "b_from_vec", "b_from_owner", "m_with_capacity", "m_from_slice", "b_clone", "b_slice",
           "b_split_off", "b_split_to", "b_copy_to_bytes", "b_truncate", "b_clear", "b_advance", "b_into_vec", "b_into_mut",
           "b_try_into_mut", "drop", "v_into_bytes", "m_split_off", "m_split_to", "m_split", "m_truncate", "m_advance",
           "m_reserve", "m_try_reclaim", "m_extend", "m_fill_spare", "m_unsplit", "m_freeze", "m_into_vec",
           "m_clone", "m_clear", "m_copy_to_bytes", "m_resize", "b_slice_ref", "b_clone_from"]

MUT_OPS = ["m_with_capacity", "m_from_slice", "drop", "m_split_off", "m_split_to", "m_split", "m_truncate", "m_advance",
           "m_reserve", "m_try_reclaim", "m_extend", "m_fill_spare", "m_unsplit", "m_freeze", "m_into_vec", "b_try_into_mut",
           "b_into_mut", "b_clone", "b_advance", "m_clear", "m_copy_to_bytes", "m_resize"]


def write_cfg(path, depth, handles, allocs, maxlen, ops, emit, sample_k, profile="release", parities=(0, 1), mutation="none",
              orig=(10, 17), invariants=("LawsAccept", "RcIsHandleCount", "AllFreed", "PromEndsAtEnd", "NoOverflow")):
    with open(path, "w") as f:
        f.write("CONSTANTS\n  MAXW = 127\n  IMAXW = 63\n  ARENA = 256\n  W = 7\n")     # W = 7: IMAXW is well above 2 * MaxBuf + MaxBuf (sums of in-range sizes never look unrepresentable)
        f.write('  Profile = "%s"\n  Parities = {%s}\n' % (profile, ",".join(str(p) for p in parities)))
        f.write("  MaxAllocs = %d\n  MaxHandles = %d\n  MaxLen = %d\n  Depth = %d\n" % (allocs, handles, maxlen, depth))
        f.write("  EmitPrograms = %s\n  SampleK = %d\n" % ("TRUE" if emit else "FALSE", sample_k))
        f.write("  MaxBuf = 16\n  OrigMinW = %d\n  OrigMaxW = %d\n" % orig)
        f.write('  Mutation = "%s"\n' % mutation)
        f.write("  OpSet = {%s}\n" % ",".join('"%s"' % o for o in ops))
        f.write("INIT Init\nNEXT Next\nVIEW View\n")
        if invariants:
            f.write("INVARIANTS " + " ".join(invariants) + "\n")
        f.write("ACTION_CONSTRAINT EmitEdge\nCHECK_DEADLOCK FALSE\n")


def run_model(tag, depth, handles, allocs, maxlen, ops, sample_k, seed, workers=12, timeout=1500, **kw):
    """MC + emission in one TLC run. Returns dict(stats, programs, coverage)."""
    wd = C.workdir("design")
    cfg = os.path.join(wd, tag + ".cfg")
    write_cfg(cfg, depth, handles, allocs, maxlen, ops, sample_k > 0, max(sample_k, 1), **kw)
    t0 = time.time()
    rc, out = C.run_tlc("BytesImpl", cfg, os.path.join(C.WORK, "tlc_" + tag), workers=workers, timeout=timeout,
                        extra_args=["-seed", str(seed)], java_opts="-Xss64m", heap="12g")
    stats = C.tlc_stats(out)
    if "Invariant" in out and "is violated" in out:
        m = re.search(r"Invariant (\w+) is violated", out)
        raise C.ToolError("the design model BytesImpl violates its own invariant %s for %s — the specification, not the "
                          "code, needs attention:\n%s" % (m.group(1) if m else "?", tag, "\n".join(out.split("\n")[-60:])))
    if C.tlc_failed(out) or stats["generated"] == 0:
        raise C.ToolError("TLC failed on BytesImpl (%s):\n%s" % (tag, "\n".join(out.split("\n")[-40:])))
    programs = []
    for t in C.tlc_tuples(out):
        m = re.match(r'<<\s*"REPLAY",\s*(".*")\s*>>$', t)
        if m:
            try:
                programs.append(json.loads(json.loads(m.group(1))))
            except Exception:
                pass
    # vacuity: how often each operation occurs in the emitted (sampled) transitions; with
    # sample_k = 0 nothing is emitted and coverage is not measured
    cov = {o: 0 for o in ops}
    for p in programs:
        last = p["ops"][-1]["op"]
        cov[last] = cov.get(last, 0) + 1
    C.log("[design] %s: %d states, %d transitions, depth %d, %d programs emitted, %.1fs" %
          (tag, stats["distinct"], stats["generated"], stats["depth"], len(programs), time.time() - t0))
    never = []  # sampled coverage is reported, not enforced (a rare operation may miss the sample)
    return {"tag": tag, "distinct": stats["distinct"], "generated": stats["generated"], "depth": stats["depth"],
            "programs": programs, "action_coverage": cov, "actions_never_taken": never,
            "constants": {"W": 6, "depth": depth, "handles": handles, "allocs": allocs, "maxlen": maxlen, "ops": len(ops)}}


def write_programs(programs, path, limit=None, seed=1):
    """harness program file; returns the predictions (for binding D)"""
    import random
    rnd = random.Random(seed)
    idx = list(range(len(programs)))
    if limit is not None and len(idx) > limit:
        rnd.shuffle(idx)
        idx = sorted(idx[:limit])
    preds = []
    with open(path, "w") as f:
        for n, i in enumerate(idx):
            p = programs[i]
            # the survivors are dropped in a seeded random order (all drop orders within a
            # program are explored by the model itself: `drop` is enabled for every handle)
            order = list(range(1, len(p["ops"]) + 2))
            rnd.shuffle(order)
            f.write(json.dumps({"pid": n, "par": p["par"], "ops": p["ops"], "drop_order": order}, separators=(",", ":")) + "\n")
            preds.append(p["pred"])
    return preds


def conformance(trace, preds):
    """binding D: compare the model's predicted projection with the recorded one, step by step.
    Returns (steps compared, drifting steps, first few drift descriptions)."""
    compared = 0
    drift = 0
    notes = []
    pid = -1
    k = 0
    for ln in open(trace):
        e = json.loads(ln)
        if e["op"] == "reset":
            pid = e["pid"]
            k = 0
            continue
        if e["op"] == "end" or pid < 0 or pid >= len(preds):
            continue
        pr = preds[pid]
        if k >= len(pr):
            continue  # teardown drops
        p = pr[k]
        k += 1
        compared += 1
        real = sorted([o["h"], o["ty"], o["len"], o["cap"], o["off"]] for o in e["obs"])
        want = sorted(list(x) for x in p["obs"])
        if e["out"]["k"] != p["k"] or e["out"]["v"] != p["v"] or real != want:
            drift += 1
            if len(notes) < 5:
                notes.append({"pid": pid, "i": e["i"], "op": e["op"], "model": {"k": p["k"], "v": p["v"], "obs": want},
                              "code": {"k": e["out"]["k"], "v": e["out"]["v"], "obs": real}})
    return compared, drift, notes

"""C17: fault schedules (scripts of lying answers) enumerated by TLC from spec/Hostile.tla are
played by ScriptBuf against the crate's consumers on the real code; spec/HostileTrace.tla
judges the recorded outcome and the allocator/guard observations."""
import json, os, re, time, random
from . import common as C
from . import handles as H

CONSUMERS = ["bmput", "vecput", "defput", "trycopy", "getx", "ctb", "reader", "iter", "takevec", "chainvec"]
MAP = {
    "bmput": [("bytesmut_put", "d"), ("bytesmut_put_split", "d")],
    "vecput": [("vec_put", "d")],
    "defput": [("slice_put", "d"), ("uninit_put", "d"), ("chain_put", "d2"), ("limit_put", "dl")],
    "trycopy": [("try_copy_to_slice", "n"), ("copy_to_slice", "n")],
    "getx": [("get_u16", "g2"), ("try_get_u32", "g4"), ("get_u32_le", "g4"), ("get_u64", "g4"), ("get_uint", "gn"), ("get_int_le", "gn"),
             ("get_i128_le", "g4"), ("try_get_f64", "g4")],
    "ctb": [("copy_to_bytes", "n"), ("chain_copy_to_bytes", "n1"), ("chain2_copy_to_bytes", "n2"), ("take_copy_to_bytes", "nt")],
    "reader": [("reader_read", "nr"), ("reader_bufread", "nr")],
    "iter": [("into_iter", "d")],
    "takevec": [("take_chunks_vectored", "v")],
    "chainvec": [("chain_chunks_vectored", "v"), ("chain2_chunks_vectored", "v")],
}


def model(tag, max_calls, sample_k, seed, mutation="none", emit=True, timeout=900):
    wd = C.workdir("hostile")
    cfg = os.path.join(wd, tag + ".cfg")
    with open(cfg, "w") as f:
        f.write('CONSTANTS\n  MAXW = 1073741823\n  R = 4\n  MaxCalls = %d\n  Consumers = {%s}\n' % (max_calls, ",".join('"%s"' % c for c in CONSUMERS)))
        f.write('  Emit = %s\n  SampleK = %d\n  Mutation = "%s"\nINIT Init\nNEXT Next\nINVARIANTS NoOOB EmitDone\nCHECK_DEADLOCK FALSE\n'
                % ("TRUE" if emit else "FALSE", sample_k, mutation))
    t0 = time.time()
    rc, out = C.run_tlc("Hostile", cfg, os.path.join(C.WORK, "tlc_" + tag), workers=8, timeout=timeout, extra_args=["-seed", str(seed)],
                        java_opts="-Xss64m", heap="10g")
    st = C.tlc_stats(out)
    if re.search(r"Invariant NoOOB is violated", out):
        raise C.ToolError("the design model Hostile.tla violates NoOOB (%s) — the specification, not the code, needs attention" % tag)
    if C.tlc_failed(out) or st["generated"] == 0:
        raise C.ToolError("TLC failed on Hostile (%s):\n%s" % (tag, "\n".join(out.split("\n")[-30:])))
    scripts = []
    for t in C.tlc_tuples(out):
        m = re.match(r'<<\s*"REPLAY",\s*(".*")\s*>>$', t)
        if m:
            try:
                scripts.append(json.loads(json.loads(m.group(1))))
            except Exception:
                pass
    C.log("[hostile] %s: %d states, %d transitions, %d fault schedules emitted (%.1fs)" % (tag, st["distinct"], st["generated"], len(scripts), time.time() - t0))
    return scripts, st


def word(v):
    return "max" if v >= (1 << 29) else v


def entry(a):
    """one model answer -> one ScriptBuf entry (every field set, so that a call of another
    method at this position still gets an interesting answer)"""
    k, v = a["kind"], a["v"]
    if k == "rem":
        return {"rem": word(v), "chunk": min(v, 12) if v < 100 else 12, "adv": "ok", "cnt": min(v, 20)}
    if k == "chunk":
        return {"rem": v, "chunk": v * 3, "adv": "ok", "cnt": v}       # R = 4 -> up to 12 real bytes
    if k == "adv":
        return {"rem": 1, "chunk": 1, "adv": "panic" if v == 1 else "ok", "cnt": 1}
    return {"rem": v, "chunk": min(v, 12), "adv": "ok", "cnt": v}


def cases(scripts, seed, limit):
    rnd = random.Random(seed)
    out = []
    for s in scripts:
        sc = [entry(a) for a in s["script"]]
        p = s["param"]
        for (name, how) in MAP[s["consumer"]]:
            d, n = p * 3, p * 3
            if how == "d2":
                d = p * 6
            elif how == "dl":
                d, n = 12, p * 3
            elif how in ("g2", "g4"):
                d, n = 0, 0
            elif how == "gn":
                n = rnd.choice([0, 1, 3, 8])
            elif how == "n1":
                n = p * 3 + 2
            elif how == "n2":
                n = p * 3 + 1
            elif how == "nt":
                d, n = p * 3 + 1, p * 3
            elif how == "nr":
                d, n = p, p         # (unscaled: the remaining() answers 0..3 then fall on both sides of the destination's length)
            elif how == "v":
                d, n = rnd.choice([0, 2, 7, 1 << 20]), p
            out.append({"consumer": name, "script": sc, "n": n, "d": d, "model": s["consumer"], "model_outcome": s["model_outcome"]})
    # environment objects without a script: lying size hints, lying / panicking owners
    for lo in [0, 1, 5, 64, 1 << 20, "max"]:   # (isize::MAX would be an allocation failure = abort: resource exhaustion, not covered)
        for hi in [0, 3, "max"]:
            for d in [0, 5, 40]:
                for c in ("bytesmut_extend_iter", "bytesmut_from_iter", "bytes_from_iter"):
                    out.append({"consumer": c, "script": [{"rem": lo, "chunk": 0, "adv": "ok", "cnt": 0}, {"rem": hi, "chunk": 0, "adv": "ok", "cnt": 0}], "n": 0, "d": d})
    # iterators that panic after k items (possibly after the destination has grown), destination
    # kept alive across the panic: plain Vec-backed, with a front offset, shared with a sibling
    for c in ("bytesmut_extend_iter_panic", "bytesmut_extend_iter_panic_off", "bytesmut_extend_iter_panic_arc"):
        for lo in [0, 1, 5, 64]:
            for hi in [0, 3, "max"]:
                for d in [5, 40]:
                    for k in [0, 1, 3, 9, 30]:
                        if k > d + 1:
                            continue
                        out.append({"consumer": c, "script": [{"rem": lo, "chunk": 0, "adv": "ok", "cnt": 0}, {"rem": hi, "chunk": 0, "adv": "ok", "cnt": 0}], "n": k, "d": d})
    for pa in [0, 1, 2, 3]:
        out.append({"consumer": "from_owner", "script": [], "n": pa, "d": 0})
    out.append({"consumer": "from_owner", "script": [], "n": 0, "d": 1})          # the owner's Drop panics
    out.append({"consumer": "from_owner", "script": [], "n": 3, "d": 1})
    # a source whose overridden copy_to_slice does not fill the destination
    for c in ("forgetful_copy_to_bytes", "forgetful_take", "forgetful_chain", "forgetful_ref", "forgetful_box"):
        for n in [0, 1, 5, 12]:
            for fill in [0, 1, 3, 12]:
                out.append({"consumer": c, "script": [], "n": n, "d": fill})
    for pos in [0, 1, 2, 3, 8, 9, 1 << 40]:
        for d in [0, 1, 4]:
            out.append({"consumer": "cursor", "script": [], "n": pos, "d": d})
    # free-form scripts for the consumers that write into growing heap buffers: every field of
    # every entry is independent, so the result does not depend on the exact call order of the
    # implementation (the model's transcription fixes one order)
    import itertools
    ent = [{"rem": r, "chunk": c, "adv": "ok", "cnt": 0} for r in (0, 1, 5, "max") for c in (0, 1, 12)]
    ent.append({"rem": 1, "chunk": 1, "adv": "ok", "cnt": 0, "boom": True})      # the environment object panics at this call
    for ln in (1, 2, 3):
        for combo in itertools.product(ent, repeat=ln):
            for name, d in (("bytesmut_put", 0), ("bytesmut_put", 3), ("bytesmut_put_split", 4), ("vec_put", 0), ("vec_put", 9), ("copy_to_bytes", 0),
                            ("bytesmut_put_keep", 0), ("bytesmut_put_keep_arc", 0)):
                if ln == 3 and rnd.random() > 0.25:
                    continue
                out.append({"consumer": name, "script": list(combo), "n": 5 if name == "copy_to_bytes" else 0, "d": d})
    fixed = [c for c in out if not c["script"] or "model" not in c]
    scripted = [c for c in out if c.get("model")]
    rnd.shuffle(scripted)
    return fixed + scripted[:limit]


def run(tag, cs, profile="debug"):
    binp = C.build("vh-handles", profile=profile)
    wd = C.workdir("hostile")
    pf = os.path.join(wd, tag + ".cases.ndjson")
    with open(pf, "w") as f:
        for c in cs:
            f.write(json.dumps(c, separators=(",", ":")) + "\n")
    raw = os.path.join(wd, tag + ".raw.ndjson")
    trace = os.path.join(wd, tag + ".ndjson")
    t0 = time.time()
    # crash isolation: a crash inside a case becomes an `abort` outcome of that case
    import subprocess
    if os.path.exists(raw):
        os.remove(raw)
    start, crashes = 0, 0
    while True:
        cmd = [binp, "--hostile", pf, "--out", raw, "--start", str(start)]
        try:
            r = subprocess.run(cmd, stdout=subprocess.PIPE, stderr=subprocess.PIPE, timeout=1200)
            rc = r.returncode
        except subprocess.TimeoutExpired:
            rc = -999
        if rc == 0:
            break
        lines = open(raw, errors="replace").read().split("\n")
        last_intent, done_after = None, False
        for ln in lines:
            if ln.startswith("#intent "):
                last_intent, done_after = ln[8:], False
            elif ln.startswith("{") and ln.endswith("}"):
                done_after = True
        good = [ln for ln in lines if ln.startswith("#") or (ln.startswith("{") and ln.endswith("}"))]
        if last_intent is None:
            raise C.ToolError("hostile driver died before the first case (rc=%s)" % rc)
        ev = json.loads(last_intent)
        with open(raw, "w") as f:
            f.write("\n".join(good) + "\n")
            if not done_after:
                f.write(json.dumps(ev) + "\n")
        crashes += 1
        start = ev["pid"] + 1
        if crashes > 80:
            # the code under test crashes in case after case: data, not a tool error; the cases
            # run so far are judged, the rest of the batch is dropped
            C.log("[hostile] %s: %d crashes, remaining cases dropped" % (tag, crashes))
            break
    n = H.clean_trace(raw, trace)
    t1 = time.time()
    rc, out = C.run_tlc("HostileTrace", "HostileTrace.cfg", os.path.join(C.WORK, "tlc_" + tag), workers=1, env_extra={"TRACE": trace}, timeout=1800, heap="6g")
    tuples = C.tlc_tuples(out)
    done = [t for t in tuples if re.match(r'<<\s*"DONE"', t)]
    if not done or C.tlc_failed(out):
        raise C.ToolError("TLC did not consume %s:\n%s" % (trace, "\n".join(out.split("\n")[-30:])))
    viols = []
    for t in tuples:
        mm = re.match(r'<<\s*"LAWVIOL",\s*(\d+),\s*(\d+),\s*"([^"]*)",\s*\{(.*)\}\s*>>', t)
        if mm:
            viols.append({"pid": int(mm.group(1)), "consumer": mm.group(3), "laws": re.findall(r'<<\s*"([^"]+)",\s*"([^"]+)"\s*>>', mm.group(4))})
    C.log("[hostile] %s: %d cases, %d crashes, %d violating; run %.1fs, TLC %.1fs" % (tag, n, crashes, len(viols), t1 - t0, time.time() - t1))
    return {"tag": tag, "cases": cs, "events": n, "violations": viols, "counts": C.parse_counts(done[-1]), "tlc": C.tlc_stats(out), "trace": trace,
            "crashes": crashes, "profile": profile}

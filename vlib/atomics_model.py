"""Binding D -> MC for C05/C06: instantiate spec/Atomics.tla with the memory orderings the
code actually passes (extracted from recorded traces, keyed by the enclosing function of each
atomic site) and let TLC explore every interleaving and every stale-load outcome."""
import os, re, time
from . import common as C

# (file, enclosing fn, operation, occurrence) -> role of Atomics.tla
ROLES = {
    ("bytes.rs", "shallow_clone_arc", "fetch_add", 0): "inc",
    ("bytes.rs", "release_shared", "fetch_sub", 0): "dec",
    ("bytes.rs", "release_shared", "load", 0): "fence",
    ("bytes.rs", "shared_to_vec_impl", "cas", 0): "tovec",
    ("bytes.rs", "shared_to_mut_impl", "load", 0): "uniq",
    ("bytes.rs", "promotable_even_clone", "load", 0): "prom_load",
    ("bytes.rs", "promotable_odd_clone", "load", 0): "prom_load",
    ("bytes.rs", "shallow_clone_vec", "cas", 0): "cas",
    ("bytes.rs", "owned_clone", "fetch_add", 0): "o_inc",
    ("bytes.rs", "owned_drop_impl", "fetch_sub", 0): "o_dec",
    ("bytes.rs", "owned_drop_impl", "load", 0): "o_fence",
    ("bytes_mut.rs", "increment_shared", "fetch_add", 0): "m_inc",
    ("bytes_mut.rs", "release_shared", "fetch_sub", 0): "m_dec",
    ("bytes_mut.rs", "release_shared", "load", 0): "m_fence",
    ("bytes_mut.rs", "is_unique", "load", 0): "m_uniq",
}
DEFAULT = {"inc": "Relaxed", "dec": "Release", "fence": "Acquire", "tovec_s": "AcqRel", "tovec_f": "Relaxed", "uniq": "Acquire",
           "prom_load": "Acquire", "cas_s": "AcqRel", "cas_f": "Acquire", "m_inc": "Relaxed", "m_dec": "Release", "m_fence": "Acquire",
           "m_uniq": "Acquire", "o_inc": "Relaxed", "o_dec": "Release", "o_fence": "Acquire"}
# sites that only touch the calling handle's own `data` word or answer is_unique(): not part of
# the modelled protocols (known, not drift)
UNMODELLED_FNS = {"owned_clone", "owned_to_vec", "owned_drop", "shared_clone", "shared_to_vec", "shared_to_mut", "shared_is_unique",
                  "promotable_is_unique", "promotable_to_vec", "promotable_to_mut", "shared_v_clone", "shared_v_to_vec", "shared_v_to_mut",
                  "shared_v_is_unique", "shared_drop", "shared_v_drop", "with_mut"}
ORDER = ["Relaxed", "Release", "Acquire", "AcqRel", "SeqCst"]


def enclosing_fn(path, line):
    try:
        src = open(path).read().split("\n")
    except OSError:
        return None
    for i in range(min(line, len(src)) - 1, -1, -1):
        m = re.match(r"\s*(?:pub(?:\([a-z]+\))?\s+)?(?:unsafe\s+)?fn\s+(\w+)", src[i])
        if m:
            return m.group(1)
    return None


def weakest(vals):
    """if one role is seen with several orderings (even/odd vtables), take the weakest"""
    return sorted(vals, key=lambda v: ORDER.index(v) if v in ORDER else 99)[0]


def roles_from_table(table):
    """table: {"bytes.rs:1566 fetch_sub": ["Release"], ...} -> (Ord record, unknown sites, missing roles)"""
    seen = {}
    occ = {}
    unknown = []
    for key, vals in table.items():
        site, op = key.split(" ")
        f, ln = site.split(":")
        fn = enclosing_fn(os.path.join(C.REPO, "src", f), int(ln))
        k = (f, fn, op)
        n = occ.get(k, 0)
        occ[k] = n + 1
        role = ROLES.get((f, fn, op, 0))
        if role is None:
            if not (fn in UNMODELLED_FNS and op == "load"):
                unknown.append("%s in %s" % (key, fn))
            continue
        for v in vals:
            if op == "cas":
                s, fl = v.split("/")
                seen.setdefault(role + "_s", set()).add(s)
                seen.setdefault(role + "_f", set()).add(fl)
            else:
                seen.setdefault(role, set()).add(v)
    ordrec = {}
    missing = []
    for role, d in DEFAULT.items():
        if role in seen:
            ordrec[role] = weakest(seen[role])
        else:
            ordrec[role] = d
            missing.append(role)
    return ordrec, unknown, missing


PROGS = """MCProgs == IF Repr = "prom"
           THEN { <<a, b>> : a \\in {<<"clone_s","read","drop">>, <<"clone_s","clone_s","drop","drop">>, <<"clone_s","to_vec","drop">>, <<"clone_s","to_mut","drop">>},
                             b \\in {<<"clone_s","read","drop">>, <<"clone_s","to_mut","drop">>, <<"clone_s","clone","drop","drop">>, <<"clone_s","to_vec","drop">>} }
           ELSE IF Repr = "owner"
           THEN { <<a, b>> : a \\in {<<"read","drop">>, <<"clone","drop","drop">>, <<"clone","read","drop","drop">>},
                             b \\in {<<"read","drop">>, <<"clone","read","drop","drop">>} }
           ELSE IF Repr = "sharedm"
           THEN { <<a, b>> : a \\in {<<"read","drop">>, <<"clone","drop","drop">>, <<"to_mut","drop">>, <<"reclaim","drop">>, <<"read","reclaim","drop">>},
                             b \\in {<<"read","drop">>, <<"to_mut","drop">>, <<"clone","read","drop","drop">>, <<"reclaim","read","drop">>} }
           ELSE { <<a, b>> : a \\in {<<"read","drop">>, <<"clone","drop","drop">>, <<"to_vec","drop">>, <<"to_mut","drop">>, <<"read","to_vec","drop">>},
                             b \\in {<<"read","drop">>, <<"to_vec","drop">>, <<"to_mut","drop">>, <<"clone","read","drop","drop">>, <<"read","to_mut","drop">>} }
"""
PROGS3 = """MCProgs == IF Repr = "prom"
           THEN { <<a, b, c>> : a \\in {<<"clone_s","read","drop">>, <<"clone_s","to_vec","drop">>}, b \\in {<<"clone_s","read","drop">>, <<"clone_s","to_mut","drop">>},
                                c \\in {<<"clone_s","drop">>, <<"clone_s","read","drop">>} }
           ELSE { <<a, b, c>> : a \\in {<<"read","drop">>, <<"to_mut","drop">>}, b \\in {<<"read","drop">>, <<"clone","drop","drop">>},
                                c \\in {<<"read","drop">>, IF Repr = "sharedm" THEN <<"reclaim","drop">> ELSE <<"to_vec","drop">>} }
"""


def run(prop, table, tier, seed):
    ordrec, unknown, missing = roles_from_table(table)
    wd = C.workdir("atomics")
    total = {"distinct": 0, "generated": 0, "depth": 0, "ordering_roles": ordrec, "unknown_sites": unknown, "roles_not_observed": missing,
             "runs": [], "violations": [], "model_drift": bool(unknown)}
    configs = [(2, r) for r in ("shared", "sharedm", "prom", "owner")]
    if tier != "quick":
        configs += [(3, r) for r in ("shared", "sharedm", "prom")]
    for nt, repr_ in configs:
        name = "MCAtomics_%s_%d_%s" % (prop, nt, repr_)
        mod = os.path.join(C.SPEC, name + ".tla")
        cfg = os.path.join(wd, name + ".cfg")
        with open(mod, "w") as f:
            f.write("---- MODULE %s ----\n(* generated by vlib/atomics_model.py from the orderings observed in the code *)\nEXTENDS Atomics\n" % name)
            f.write("MCOrd == [" + ", ".join('%s |-> "%s"' % kv for kv in sorted(ordrec.items())) + "]\n")
            f.write(PROGS if nt == 2 else PROGS3)
            f.write("====\n")
        with open(cfg, "w") as f:
            f.write('CONSTANTS\n  NT = %d\n  Repr = "%s"\n  ProgChoices <- MCProgs\n  Ord <- MCOrd\n' % (nt, repr_))
            f.write("INIT Init\nNEXT Next\nINVARIANTS NoRace NoUseAfterFree FreedExactlyOnce AtMostOneExclusive\nCHECK_DEADLOCK FALSE\n")
        t0 = time.time()
        try:
            rc, out = C.run_tlc(name, cfg, os.path.join(C.WORK, "tlc_" + name), workers=8, timeout=1500, java_opts="-Xss64m", heap="8g")
        finally:
            os.remove(mod)
        st = C.tlc_stats(out)
        m = re.search(r"Invariant (\w+) is violated", out)
        if not m and (C.tlc_failed(out) or st["generated"] == 0):
            raise C.ToolError("TLC failed on %s:\n%s" % (name, "\n".join(out.split("\n")[-30:])))
        total["distinct"] += st["distinct"]
        total["generated"] += st["generated"]
        total["depth"] = max(total["depth"], st["depth"])
        total["runs"].append({"threads": nt, "repr": repr_, "states": st["distinct"], "transitions": st["generated"],
                              "violated": m.group(1) if m else None, "wall_s": round(time.time() - t0, 1)})
        if m:
            inv = m.group(1)
            p = "C06" if inv == "NoRace" else "C05"
            trace = [ln for ln in out.split("\n") if ln.startswith("State ") or "Progs =" in ln][:40]
            total["violations"].append({"property": p, "invariant": inv, "name": "%s_%dthreads" % (repr_, nt), "ordering_roles": ordrec,
                                        "tlc_trace_head": trace, "confirmed": None})
            if inv == "NoRace" and prop == "C05":
                total["violations"].append({"property": "C05", "invariant": inv, "name": "%s_%dthreads" % (repr_, nt), "ordering_roles": ordrec,
                                            "tlc_trace_head": trace, "confirmed": None})
        C.log("[atomics] %s threads=%d: %d states, %d transitions, %s (%.1fs)" % (repr_, nt, st["distinct"], st["generated"],
                                                                                 "VIOLATES " + m.group(1) if m else "ok", time.time() - t0))
    return total

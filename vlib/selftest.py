"""./check selftest: demonstrates the binding between specification and code.
 (i)  corrupting ONE recorded field / removing ONE event of a good trace makes TLC reject it;
 (ii) seeded mutants of the design models violate their invariants (the models can fail);
 (iii) with --seeded: every change under /verif/seeded is applied to /repo, the quick check of
      its property must print a VIOLATION, and the change is undone (git checkout).
Exit 0 iff everything behaved as expected."""
import json, os, re, subprocess, sys, time
from . import common as C


def corrupt_lines(src, dst, edit):
    lines = open(src).read().split("\n")
    done = False
    out = []
    for ln in lines:
        if not done and ln.startswith("{"):
            new = edit(ln)
            if new is not None and new != ln:
                done = True
                if new == "":
                    continue
                ln = new
        out.append(ln)
    open(dst, "w").write("\n".join(out))
    return done


def sub_once(pattern, repl):
    def f(ln):
        new, n = re.subn(pattern, repl, ln, count=1)
        return new if n else None
    return f


def run(args):
    from . import handles as H, cursors as K, threads as T, design as D
    ok = True
    results = []
    wd = C.workdir("selftest")

    def expect(name, cond, detail=""):
        nonlocal ok
        results.append((name, cond, detail))
        print("%s %s %s" % ("ok  " if cond else "FAIL", name, detail))
        ok = ok and cond

    # ---- (i) corrupted traces ---------------------------------------------------------
    r = H.run_config("selftest_h", "debug", ["--random", "--seed", "77", "--nprog", "40", "--steps", "30", "--maxh", "5", "--maxlen", "10",
                                            "--profile", "mixed"])
    expect("handles: unmodified trace accepted", len(r["violations"]) == 0)
    good = r["trace"]
    edits = [
        ("one content byte changed", sub_once(r'"d":\[(\d+),', lambda m: '"d":[%d,' % (int(m.group(1)) + 1)), "C01"),
        ("one length changed", sub_once(r'"len":(\d+),"cap":(\d+),"u":(\w+),"d":\[(\d+)', lambda m: '"len":%d,"cap":%s,"u":%s,"d":[%s' % (int(m.group(1)) + 1, m.group(2), m.group(3), m.group(4))), "C01"),
        ("one free size changed", sub_once(r'"e":"free","id":(\d+),"size":(\d+)', lambda m: '"e":"free","id":%s,"size":%d' % (m.group(1), int(m.group(2)) + 1)), "C02"),
        ("one free event removed", sub_once(r'"mem":\[\{"e":"free","id":\d+,"size":\d+,"align":1,[^}]*\}\]', '"mem":[]'), "C03"),
        ("one is_unique answer flipped", sub_once(r'"u":true', '"u":false'), "C08"),
        ("one panic turned into ok", sub_once(r'"k":"panic"', '"k":"ok"'), "C13"),
        ("one address offset changed", sub_once(r'"ty":"B","a":(\d+),"off":(\d+)', lambda m: '"ty":"B","a":%s,"off":%d' % (m.group(1), int(m.group(2)) + 1)), "C07"),
    ]
    for name, ed, prop in edits:
        bad = os.path.join(wd, "bad.ndjson")
        if not corrupt_lines(good, bad, ed):
            expect("handles: " + name, False, "(pattern not found)")
            continue
        try:
            v, _, _, _ = H.validate(bad, "selftest_bad")
            props = {p for x in v for (p, l) in x["laws"]}
            expect("handles: %s -> rejected" % name, len(v) > 0, "laws of %s" % sorted(props))
        except C.ToolError as e:
            expect("handles: %s -> rejected" % name, True, "(TLC refused the trace)")

    # concurrent trace: weaken ONE logged ordering
    progs = T.programs("quick", 3)[:12]
    tr = T.run("selftest_t", progs, 30, random_runs=5, seed=3)
    expect("threads: unmodified trace accepted", len(tr["violations"]) == 0)
    bad = os.path.join(wd, "bad_t.ndjson")
    txt = open(tr["trace"]).read()
    n_rel = txt.count('"op":"fetch_sub","ord":"Release"')
    open(bad, "w").write(txt.replace('"op":"fetch_sub","ord":"Release"', '"op":"fetch_sub","ord":"Relaxed"'))
    rc, out = C.run_tlc("AtomicsMonitor", "AtomicsMonitor.cfg", os.path.join(C.WORK, "tlc_selftest_t"), workers=1, env_extra={"TRACE": bad}, timeout=900)
    nr = len([t for t in C.tlc_tuples(out) if "no_race" in t])
    expect("threads: logged Release of fetch_sub replaced by Relaxed (%d events) -> races reported" % n_rel, nr > 0, "%d racy executions" % nr)

    # ... and turn one operation's end into a panic of that (in-contract) operation
    bad = os.path.join(wd, "bad_t2.ndjson")
    lines = txt.split("\n")
    idx = next((i for i, ln in enumerate(lines) if '"k":"op_begin"' in ln), None)
    if idx is None:
        expect("threads: one operation panics -> rejected", False, "(no op_begin event)")
    else:
        lines.insert(idx + 1, lines[idx].replace('"k":"op_begin"', '"k":"op_panic"'))
        open(bad, "w").write("\n".join(lines))
        rc, out = C.run_tlc("AtomicsMonitor", "AtomicsMonitor.cfg", os.path.join(C.WORK, "tlc_selftest_t2"), workers=1, env_extra={"TRACE": bad}, timeout=900)
        expect("threads: one operation panics -> rejected", any("op_returns" in t for t in C.tlc_tuples(out)))

    # pure-function trace: one comparison panics
    from . import pure as P
    pr = P.run_mode("selftest", "cmp", "quick", 1)
    expect("pure: unmodified comparison trace accepted", len(pr["violations"]) == 0)
    bad = os.path.join(wd, "bad_p.ndjson")
    open(bad, "w").write(open(pr["trace"]).read() + '{"k":"panic","mode":"cmp","l":[1],"r":[]}\n')
    rc, out = C.run_tlc("PureTrace", "PureTrace.cfg", os.path.join(C.WORK, "tlc_selftest_p"), workers=1, env_extra={"TRACE": bad}, timeout=900)
    expect("pure: a comparison that panics -> rejected", any("no_panic" in t for t in C.tlc_tuples(out)))

    # cursor trace: change one result byte
    names = K.method_names()
    progs, _ = K.generate("selftest_c", "buf", 1, 2, 1, [3], ["copy_to_slice", "chunk", "get"], ["get_u16"], [0], 50, 5, timeout=300)
    cr = K.run_and_validate("selftest_c", progs[:300])
    expect("cursors: unmodified trace accepted", len(cr["violations"]) == 0)
    bad = os.path.join(wd, "bad_c.ndjson")
    okc = corrupt_lines(cr["trace"], bad, sub_once(r'"op":"copy_to_slice"(.*?)"v":\[(\d+)', lambda m: '"op":"copy_to_slice"%s"v":[%d' % (m.group(1), int(m.group(2)) + 1)))
    rc, out = C.run_tlc("BufTrace", "BufTrace.cfg", os.path.join(C.WORK, "tlc_selftest_c"), workers=1, env_extra={"TRACE": bad}, timeout=900)
    nv = len([t for t in C.tlc_tuples(out) if "LAWVIOL" in t[:14]])
    expect("cursors: one returned byte changed -> rejected", okc and nv > 0)
    # a copying read that fails must leave the cursor where it was: make one failing read consume a byte
    progs2, _ = K.generate("selftest_c2", "buf", 1, 1, 1, [3], ["copy_to_slice", "copy_to_bytes"], [], [0], 1, 5, timeout=300, leaf_types=["slice"], wraps=())
    cr2 = K.run_and_validate("selftest_c2", progs2[:200])
    bad = os.path.join(wd, "bad_c2.ndjson")
    okc2 = corrupt_lines(cr2["trace"], bad, sub_once(r'("op":"copy_to_(?:slice|bytes)".*?"out":"panic".*?"tree":\{"k":"leaf","ty":"slice".*?"d":\[)\d+,?', lambda m: m.group(1)))
    rc, out = C.run_tlc("BufTrace", "BufTrace.cfg", os.path.join(C.WORK, "tlc_selftest_c2"), workers=1, env_extra={"TRACE": bad}, timeout=900)
    expect("cursors: a failing copying read that consumed a byte -> rejected", okc2 and any("failed_read_untouched" in t for t in C.tlc_tuples(out)), "" if okc2 else "(pattern not found)")

    # ---- (ii) model mutants -------------------------------------------------------------
    try:
        D.run_model("selftest_mut", 5, 3, 6, 3, D.MUT_OPS, 0, 1, mutation="d1_unchecked_add", parities=(0,), timeout=600)
        expect("BytesImpl with the pre-fix unchecked `new_cap + offset` violates LawsAccept", False)
    except C.ToolError as e:
        expect("BytesImpl with the pre-fix unchecked `new_cap + offset` violates LawsAccept", "LawsAccept" in str(e) or "NoOverflow" in str(e))
    try:
        D.run_model("selftest_mut2", 4, 3, 6, 3, ["b_from_vec", "b_split_to", "b_split_off", "b_clone_from", "b_clone", "drop"], 0, 1,
                    mutation="clone_from_same_ptr", parities=(0,), timeout=600)
        expect("BytesImpl with a clone_from that trusts equal start addresses violates its invariants", False, "(no violation found)")
    except C.ToolError as e:
        expect("BytesImpl with a clone_from that trusts equal start addresses violates its invariants", "violates its own invariant" in str(e),
               str(e)[:160].replace("\n", " "))
    from . import hostile as X
    try:
        X.model("selftest_hostile", 5, 1000, 1, mutation="bmput_reserve_once", emit=False)
        expect("Hostile with BytesMut::put reserving once violates NoOOB", False)
    except C.ToolError as e:
        expect("Hostile with BytesMut::put reserving once violates NoOOB", "NoOOB" in str(e))
    for (side, mut, what) in (("buf", "chain_vec_prefix", "BufTree with the pre-fix Chain::chunks_vectored violates LawsAccept"),
                              ("mut", "limit_keeps", "SinkTree with Limit::advance_mut forgetting `limit -= cnt` violates LawsAccept")):
        try:
            if side == "buf":
                K.design_mc("selftest_buftree", 2, 2, 1, [0, 2, 3], ["remaining", "chunk", "advance", "chunks_vectored", "copy_to_bytes"], [], [0],
                            leaf_types=["slice", "chunked"], mutation=mut, timeout=600)
            else:
                K.design_mc("selftest_sinktree", 2, 2, 2, [0, 1, 3], ["remaining_mut", "chunk_mut_len", "put_slice"], [], [0],
                            leaf_types=["slice", "vec"], mutation=mut, side="mut", timeout=600)
            expect(what, False)
        except C.ToolError as e:
            expect(what, "LawsAccept" in str(e))
    from . import atomics_model as M
    tab = {"bytes.rs:1 fetch_sub": ["Relaxed"]}
    ordrec = dict(M.DEFAULT, dec="Relaxed")
    save = M.roles_from_table
    M.roles_from_table = lambda t: (ordrec, [], [])
    try:
        mc = M.run("C06", {}, "quick", 1)
        expect("Atomics with release_shared's fetch_sub weakened to Relaxed violates NoRace", any(v["invariant"] == "NoRace" for v in mc["violations"]))
    finally:
        M.roles_from_table = save

    # ---- (iii) seeded changes -----------------------------------------------------------
    if "--seeded" in args:
        sd = os.path.join(C.VERIF, "seeded")
        for name in sorted(os.listdir(sd)):
            meta_p = os.path.join(sd, name, "meta.json")
            if not os.path.exists(meta_p):
                continue
            meta = json.load(open(meta_p))
            patch = os.path.join(sd, name, "patch.diff")
            checks = meta.get("detected_by") or [meta["property"]]
            r = subprocess.run([os.path.join(C.VERIF, "tools", "try_mutant.sh"), patch] + checks[:1], stdout=subprocess.PIPE, stderr=subprocess.STDOUT, text=True)
            expect("seeded %s detected by %s" % (name, checks[0]), "rc=1" in r.stdout and "VIOLATION" in r.stdout, r.stdout.strip()[:160])
    print("SELFTEST %s (%d expectations)" % ("PASSED" if ok else "FAILED", len(results)))
    return 0 if ok else 1

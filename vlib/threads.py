"""Concurrency checks (C05, C06): small multi-threaded programs on every shared
representation, all interleavings of their atomic operations enumerated by the controlled
scheduler of harness/vh-threads (bounded DFS), each recorded execution judged by TLC against
spec/AtomicsMonitor.tla (vector clocks from the orderings actually passed)."""
import json, os, re, subprocess, time, random, itertools
from . import common as C

B_OPS = [{"op": "read", "i": 0}, {"op": "clone", "i": 0}, {"op": "drop", "i": 0}, {"op": "try_into_mut", "i": 0},
         {"op": "into_vec", "i": 0}, {"op": "into_mut", "i": 0}, {"op": "slice", "i": 0}, {"op": "is_unique", "i": 0}]
S_OPS = [{"op": "clone_s"}, {"op": "read_s"}, {"op": "slice_s"}, {"op": "is_unique_s"}]
M_OPS = [{"op": "write", "i": 0}, {"op": "reserve", "i": 0, "n": 16}, {"op": "try_reclaim", "i": 0, "n": 6}, {"op": "freeze", "i": 0},
         {"op": "drop", "i": 0}, {"op": "read", "i": 0}, {"op": "put", "i": 0}, {"op": "advance", "i": 0, "n": 1}, {"op": "split_off", "i": 0},
         {"op": "split_to", "i": 0}, {"op": "into_vec", "i": 0}]
# after an op that creates handle 1 (clone / clone_s / slice)
B_OPS2 = [{"op": "read", "i": 1}, {"op": "drop", "i": 1}, {"op": "try_into_mut", "i": 1}, {"op": "into_vec", "i": 1}]


def seqs(alpha, maxlen):
    out = []
    for n in range(1, maxlen + 1):
        for s in itertools.product(alpha, repeat=n):
            out.append(list(s))
    return out


def programs(tier, seed):
    """the program universe; quick samples it with the seed"""
    rnd = random.Random(seed)
    progs = []
    maxlen = 2 if tier == "quick" else 3

    def add(init, alphas):
        lists = [seqs(a, maxlen) for a in alphas]
        for combo in itertools.product(*lists):
            progs.append({"init": init, "threads": [list(c) for c in combo]})

    # promotable, shared through one &Bytes: the promotion race
    for off in (0, 3):
        add({"repr": "prom", "len": 8, "off": off, "give": False}, [S_OPS + B_OPS[:5], S_OPS + B_OPS[:5]])
    # bytes.rs Shared: each thread owns a clone; main gave up its handle
    add({"repr": "shared", "len": 8, "give": True, "drop_main": True}, [B_OPS, B_OPS])
    add({"repr": "shared", "len": 8, "give": True, "drop_main": False}, [B_OPS[:4] + S_OPS[:1], B_OPS])
    add({"repr": "prom_arc", "len": 8, "give": True, "drop_main": True}, [B_OPS, B_OPS])
    # bytes_mut.rs Shared
    add({"repr": "sharedm", "len": 8, "kinds": ["M", "M"]}, [M_OPS, M_OPS])
    add({"repr": "sharedm", "len": 8, "kinds": ["M", "B"]}, [M_OPS, B_OPS])
    add({"repr": "sharedm", "len": 8, "kinds": ["B", "C"]}, [B_OPS, B_OPS])
    add({"repr": "sharedm", "len": 8, "kinds": ["B", "B"]}, [B_OPS, B_OPS])
    add({"repr": "owner", "len": 8}, [B_OPS[:6], B_OPS[:6]])
    three = []
    if tier != "quick":
        for init in ({"repr": "prom", "len": 8, "off": 0, "give": False}, {"repr": "shared", "len": 8, "give": True, "drop_main": True},
                     {"repr": "sharedm", "len": 9, "kinds": ["M", "B", "C"]}):
            alpha = S_OPS[:2] + B_OPS[:5] if init["repr"] == "prom" else B_OPS[:5]
            for combo in itertools.product(seqs(alpha, 1), repeat=3):
                three.append({"init": init, "threads": [list(c) for c in combo]})
    rnd.shuffle(progs)
    n = 140 if tier == "quick" else 800
    # always include the canonical races first
    canon = [
        {"init": {"repr": "prom", "len": 8, "off": 3, "give": False}, "threads": [[{"op": "clone_s"}, {"op": "read", "i": 0}], [{"op": "clone_s"}, {"op": "read", "i": 0}]]},
        {"init": {"repr": "shared", "len": 8, "give": True, "drop_main": True}, "threads": [[{"op": "read", "i": 0}, {"op": "drop", "i": 0}], [{"op": "into_mut", "i": 0}]]},
        {"init": {"repr": "shared", "len": 8, "give": True, "drop_main": True}, "threads": [[{"op": "read", "i": 0}, {"op": "drop", "i": 0}], [{"op": "into_vec", "i": 0}]]},
        {"init": {"repr": "shared", "len": 8, "give": True, "drop_main": True}, "threads": [[{"op": "read", "i": 0}], [{"op": "read", "i": 0}]]},
        {"init": {"repr": "sharedm", "len": 8, "kinds": ["M", "M"]}, "threads": [[{"op": "write", "i": 0}, {"op": "drop", "i": 0}], [{"op": "try_reclaim", "i": 0, "n": 6}]]},
        {"init": {"repr": "sharedm", "len": 8, "kinds": ["M", "M"]}, "threads": [[{"op": "write", "i": 0}, {"op": "drop", "i": 0}], [{"op": "reserve", "i": 0, "n": 6}]]},
        {"init": {"repr": "sharedm", "len": 8, "kinds": ["B", "C"]}, "threads": [[{"op": "read", "i": 0}, {"op": "drop", "i": 0}], [{"op": "try_into_mut", "i": 0}]]},
        {"init": {"repr": "sharedm", "len": 8, "kinds": ["B", "C"]}, "threads": [[{"op": "read", "i": 0}, {"op": "drop", "i": 0}], [{"op": "into_vec", "i": 0}]]},
        {"init": {"repr": "sharedm", "len": 8, "kinds": ["M", "B"]}, "threads": [[{"op": "try_reclaim", "i": 0, "n": 6}], [{"op": "read", "i": 0}, {"op": "drop", "i": 0}]]},
        {"init": {"repr": "owner", "len": 8}, "threads": [[{"op": "read", "i": 0}, {"op": "drop", "i": 0}], [{"op": "read", "i": 0}, {"op": "drop", "i": 0}]]},
        {"init": {"repr": "prom", "len": 8, "off": 0, "give": False}, "threads": [[{"op": "clone_s"}, {"op": "into_vec", "i": 0}], [{"op": "clone_s"}, {"op": "drop", "i": 0}]]},
    ]
    # both threads give up (or convert) the last two handles at the same time
    dd = [{"op": "drop", "i": 0}]
    for init in ({"repr": "shared", "len": 8, "give": True, "drop_main": True}, {"repr": "prom_arc", "len": 8, "give": True, "drop_main": True},
                 {"repr": "sharedm", "len": 8, "kinds": ["B", "C"]}, {"repr": "sharedm", "len": 8, "kinds": ["M", "M"]}, {"repr": "sharedm", "len": 8, "kinds": ["M", "B"]},
                 {"repr": "owner", "len": 8}):
        canon.append({"init": init, "threads": [dd, dd]})
        if init["repr"] != "sharedm" or init["kinds"][0] == "B":
            for conv in ("into_vec", "into_mut", "try_into_mut"):
                canon.append({"init": init, "threads": [[{"op": conv, "i": 0}], dd]})
    canon.append({"init": {"repr": "prom", "len": 8, "off": 0, "give": False}, "threads": [[{"op": "clone_s"}, {"op": "drop", "i": 0}], [{"op": "clone_s"}, {"op": "drop", "i": 0}]]})
    # a BytesMut piece becomes a Vec while the other handles of the buffer are dropped elsewhere
    for kinds in (["M", "M"], ["M", "B"]):
        canon.append({"init": {"repr": "sharedm", "len": 8, "kinds": kinds}, "threads": [[{"op": "into_vec", "i": 0}], [{"op": "read", "i": 0}, {"op": "drop", "i": 0}]]})
    # uniqueness queried while another thread promotes / releases
    for off in (0, 3):
        canon.append({"init": {"repr": "prom", "len": 8, "off": off, "give": False}, "threads": [[{"op": "clone_s"}, {"op": "drop", "i": 0}], [{"op": "is_unique_s"}, {"op": "is_unique_s"}]]})
    for init in ({"repr": "shared", "len": 8, "give": True, "drop_main": True}, {"repr": "prom_arc", "len": 8, "give": True, "drop_main": True},
                 {"repr": "sharedm", "len": 8, "kinds": ["B", "C"]}):
        canon.append({"init": init, "threads": [[{"op": "read", "i": 0}, {"op": "drop", "i": 0}], [{"op": "is_unique", "i": 0}, {"op": "try_into_mut", "i": 0}]]})
    # one thread writes its piece and drops it; the other splits its own piece (a count that was 1 is touched again),
    # drops the new piece and takes the rest of the buffer back
    for sp in ("split_off", "split_to"):
        canon.append({"init": {"repr": "sharedm", "len": 8, "kinds": ["M", "M"]},
                      "threads": [[{"op": "write", "i": 0}, {"op": "drop", "i": 0}],
                                  [{"op": sp, "i": 0}, {"op": "drop", "i": 1}, {"op": "try_reclaim", "i": 0, "n": 6}, {"op": "write", "i": 0}]]})
    rnd.shuffle(three)
    return canon + progs[:n] + three[: (0 if tier == "quick" else 300)]


def run(tag, progs, max_runs, free_runs=0, profile="debug", random_runs=0, seed=1):
    wd = C.workdir("threads")
    pf = os.path.join(wd, tag + ".programs.ndjson")
    with open(pf, "w") as f:
        for p in progs:
            f.write(json.dumps(p, separators=(",", ":")) + "\n")
    binp = C.build("vh-threads", profile=profile)
    trace = os.path.join(wd, tag + ".ndjson")
    t0 = time.time()
    r = subprocess.run([binp, "--programs", pf, "--out", trace, "--max-runs", str(max_runs), "--free-runs", str(free_runs), "--random-runs", str(random_runs), "--seed", str(seed)],
                       stdout=subprocess.PIPE, stderr=subprocess.PIPE, timeout=3000)
    crashed = r.returncode != 0
    if crashed and not os.path.exists(trace):
        raise C.ToolError("vh-threads failed: %s" % r.stderr.decode()[-400:])
    t1 = time.time()
    # keep only complete lines (a crash of the code under test may cut the last one)
    lines = [ln for ln in open(trace, errors="replace").read().split("\n") if ln.startswith("{") and ln.endswith("}")]
    if crashed:
        # the execution in progress died inside the crate: report it as use-after-free class
        lines.append(json.dumps({"k": "bad_free", "t": 99, "loc": 0, "blk": 0, "op": "", "ord": "", "ordf": "", "old": 0, "new": 0, "ok": False, "site": "",
                                 "id": 0, "size": 0, "align": 0, "h": 0, "dok": True, "aok": True, "note": "process died rc=%s" % r.returncode}))
    with open(trace, "w") as f:
        f.write("\n".join(lines) + "\n")
    nruns = sum(1 for ln in lines if ln.startswith('{"k":"reset"'))
    tuples, st, total = C.run_tlc_parallel("AtomicsMonitor", "AtomicsMonitor.cfg", trace, tag, lambda ln: ln.startswith('{"k":"reset"'),
                                           nparts=8 if len(lines) > 20000 else 1)
    if total != len(lines):
        raise C.ToolError("TLC consumed %d of %d events" % (total, len(lines)))
    counts = {}
    for t in tuples:
        if re.match(r'<<\s*"DONE"', t):
            for k, n in C.parse_counts(t).items():
                counts[k] = counts.get(k, 0) + n
    viols = []
    for t in tuples:
        mm = re.match(r'<<\s*"LAWVIOL",\s*(-?\d+),\s*(-?\d+),\s*"([^"]*)",\s*\{(.*)\}\s*>>', t)
        if mm:
            viols.append({"pid": int(mm.group(1)), "run": int(mm.group(2)), "k": mm.group(3),
                          "laws": re.findall(r'<<\s*"([^"]+)",\s*"([^"]+)"\s*>>', mm.group(4))})
    C.log("[threads] %s: %d programs, %d executions, %d events, %d violating executions; run %.1fs, TLC %.1fs%s" %
          (tag, len(progs), nruns, len(lines), len(viols), t1 - t0, time.time() - t1, " (harness died)" if crashed else ""))
    return {"tag": tag, "programs": len(progs), "executions": nruns, "events": len(lines), "violations": viols, "counts": counts,
            "tlc": st, "trace": trace, "progs": progs, "crashed": crashed}


def execution(trace, pid, run):
    evs, on = [], False
    for ln in open(trace):
        if ln.startswith('{"k":"reset"'):
            e = json.loads(ln)
            on = e["id"] == pid and e["size"] == run
        if on:
            evs.append(json.loads(ln))
    return evs


def ordering_table(trace):
    """binding D: the ordering actually passed at every atomic site seen in the trace"""
    tab = {}
    for ln in open(trace):
        if '"k":"atomic"' not in ln:
            continue
        e = json.loads(ln)
        if e["op"] == "get_mut" or not e["site"]:
            continue
        key = "%s %s" % (e["site"], e["op"])
        val = e["ord"] if e["op"] != "cas" else "%s/%s" % (e["ord"], e["ordf"])
        tab.setdefault(key, set()).add(val)
    return {k: sorted(v) for k, v in sorted(tab.items())}

"""Shared plumbing of the /verif check driver: building the harness against /repo's working
tree, running TLC, parsing its output, known findings, evidence files."""
import json, os, re, subprocess, sys, time, hashlib, shutil

VERIF = os.path.dirname(os.path.dirname(os.path.abspath(__file__)))
REPO = "/repo"
SPEC = os.path.join(VERIF, "spec")
HARNESS = os.path.join(VERIF, "harness")
WORK = os.path.join(VERIF, ".work")
EVID = os.path.join(VERIF, "evidence")
REPLAYS = os.path.join(WORK, "replays")


# the ASAN observer builds leak their per-program arenas on purpose; only invalid accesses count
os.environ.setdefault("ASAN_OPTIONS", "detect_leaks=0:abort_on_error=1")


class ToolError(Exception):
    pass


def log(*a):
    print(*a, file=sys.stderr, flush=True)


def seed_from_env():
    try:
        return int(os.environ.get("VERIF_SEED", "1"))
    except ValueError:
        return 1


def workdir(name):
    d = os.path.join(WORK, name)
    os.makedirs(d, exist_ok=True)
    return d


def cargo_env():
    env = dict(os.environ)
    env["CARGO_NET_OFFLINE"] = "true"
    env.pop("RUSTFLAGS", None)
    return env


_built = {}


ASAN_TRIPLE = "x86_64-unknown-linux-gnu"


def build_asan(package):
    """the ASAN observer build (nightly, -Zsanitizer=address): red zones and quarantined blocks
    of the ledger allocator are poisoned for the sanitizer, so that out-of-bounds and
    use-after-free READS abort the process (an `abort` outcome for the laws)"""
    key = (package, "asan")
    if key in _built:
        return _built[key]
    tdir = os.path.join(HARNESS, "target", "asan")
    env = cargo_env()
    env["RUSTFLAGS"] = "-Zsanitizer=address"
    t0 = time.time()
    feats = ["--features", "std,asan"] if package == "vh-handles" else []
    r = subprocess.run(["cargo", "+nightly", "build", "--offline", "-q", "-p", package] + feats + ["--target", ASAN_TRIPLE,
                        "--target-dir", tdir], cwd=HARNESS, env=env, stdout=subprocess.PIPE, stderr=subprocess.STDOUT, text=True)
    if r.returncode != 0:
        raise ToolError("ASAN build failed for %s:\n%s" % (package, r.stdout[-3000:]))
    binp = os.path.join(tdir, ASAN_TRIPLE, "debug", package)
    _built[key] = binp
    log("[build] %s asan in %.1fs" % (package, time.time() - t0))
    return binp


def build(package, profile="debug", features=None, no_default=False, toolchain=None, extra_rustflags=None, target_dir=None):
    """cargo build of one harness package against /repo's current working tree."""
    if profile == "asan":
        return build_asan(package)
    if os.environ.get("VERIF_COV"):
        # development aid (never set by the registered commands): coverage-instrumented harness
        # builds in a scratch directory, to see which lines of /repo/src the checks execute
        # (tools/coverage.sh)
        toolchain = "nightly"
        extra_rustflags = ((extra_rustflags or "") + " -C instrument-coverage").strip()
        target_dir = os.path.join(os.environ["VERIF_COV"], "target-" + ("nd-" if no_default else "") + "-".join(features or ["default"]))
        os.environ["LLVM_PROFILE_FILE"] = os.path.join(os.environ["VERIF_COV"], "prof", "%p-%m.profraw")
    key = (package, profile, tuple(features or ()), no_default, toolchain, extra_rustflags, target_dir)
    if key in _built:
        return _built[key]
    cmd = ["cargo"]
    if toolchain:
        cmd.append("+" + toolchain)
    cmd += ["build", "--offline", "-q", "-p", package]
    if profile == "release":
        cmd.append("--release")
    if no_default:
        cmd.append("--no-default-features")
    if features:
        cmd += ["--features", ",".join(features)]
    tdir = target_dir or os.path.join(HARNESS, "target", "cfg-" + ("nd-" if no_default else "") + "-".join(features or ["default"]))
    cmd += ["--target-dir", tdir]
    env = cargo_env()
    if extra_rustflags:
        env["RUSTFLAGS"] = extra_rustflags
    t0 = time.time()
    r = subprocess.run(cmd, cwd=HARNESS, env=env, stdout=subprocess.PIPE, stderr=subprocess.STDOUT, text=True)
    if r.returncode != 0:
        # A change to /repo that does not compile is not a verdict about a property.
        raise ToolError("cargo build failed for %s:\n%s" % (package, r.stdout[-4000:]))
    binp = os.path.join(tdir, "release" if profile == "release" else "debug", package)
    _built[key] = binp
    log("[build] %s %s %s in %.1fs" % (package, profile, features or "default", time.time() - t0))
    return binp


# ------------------------------------------------------------------------------------------
# TLC
# ------------------------------------------------------------------------------------------
TLC_JAVA_OPTS = "-Xss1g -Dtlc2.tool.queue.IStateQueue=StateDeque"


def run_tlc(module, cfg, metadir, workers=1, env_extra=None, timeout=1800, extra_args=None, java_opts=None, heap=None):
    """Run TLC on spec/<module>.tla with spec/<cfg>; returns (exit code, stdout text)."""
    os.makedirs(metadir, exist_ok=True)
    env = dict(os.environ)
    jo = java_opts if java_opts is not None else TLC_JAVA_OPTS
    if heap:
        jo += " -Xmx" + heap
    env["JAVA_TOOL_OPTIONS"] = jo
    if env_extra:
        env.update(env_extra)
    cmd = ["timeout", str(timeout), "tlc", "-workers", str(workers), "-metadir", metadir, "-cleanup",
           "-noGenerateSpecTE", "-config", cfg] + (extra_args or []) + [module + ".tla"]
    r = subprocess.run(cmd, cwd=SPEC, env=env, stdout=subprocess.PIPE, stderr=subprocess.STDOUT, text=True)
    shutil.rmtree(metadir, ignore_errors=True)
    if r.returncode == 124:
        raise ToolError("TLC timed out after %ss on %s/%s" % (timeout, module, cfg))
    return r.returncode, r.stdout


def tlc_stats(out):
    """states generated / distinct / depth from TLC's summary lines."""
    st = {"generated": 0, "distinct": 0, "depth": 0}
    m = re.findall(r"(\d[\d,]*) states generated, (\d[\d,]*) distinct states found", out)
    if m:
        st["generated"] = int(m[-1][0].replace(",", ""))
        st["distinct"] = int(m[-1][1].replace(",", ""))
    m = re.search(r"depth of the complete state graph search is (\d+)", out)
    if m:
        st["depth"] = int(m.group(1))
    return st


def tlc_failed(out):
    """TLC reported an error of its own (parse error, evaluation error, invariant)."""
    return bool(re.search(r"^Error:|TLC threw an unexpected exception|Parse Error|Semantic errors|Invariant .* is violated|evaluating the nested", out, re.M))


_TUPLE_START = re.compile(r'^<<\s*"(LAWVIOL|DONE|COVER|REPLAY|INFO)"')


def tlc_tuples(out):
    """Extract the top-level PrintT tuples tagged LAWVIOL/DONE/... (TLC pretty-prints long
    values over several lines)."""
    res = []
    lines = out.split("\n")
    i = 0
    while i < len(lines):
        ln = lines[i]
        if _TUPLE_START.match(ln):
            buf = ln
            depth = buf.count("<<") - buf.count(">>") + buf.count("[") - buf.count("]") + buf.count("{") - buf.count("}")
            while depth > 0 and i + 1 < len(lines):
                i += 1
                buf += " " + lines[i].strip()
                depth = buf.count("<<") - buf.count(">>") + buf.count("[") - buf.count("]") + buf.count("{") - buf.count("}")
            res.append(re.sub(r"\s+", " ", buf))
        i += 1
    return res


def parse_lawviol(t):
    """<<"LAWVIOL", pid, i, "op", {<<"C02","law">>, ...}>> -> dict"""
    m = re.match(r'<<\s*"LAWVIOL",\s*(-?\d+),\s*(-?\d+),\s*"([^"]*)",\s*\{(.*)\}\s*>>', t)
    if not m:
        return None
    laws = re.findall(r'<<\s*"([^"]+)",\s*"([^"]+)"\s*>>', m.group(4))
    return {"pid": int(m.group(1)), "i": int(m.group(2)), "op": m.group(3), "laws": laws}


def parse_counts(t):
    """the [k |-> n, ...] record at the end of a DONE tuple"""
    return {k: int(v) for k, v in re.findall(r'([A-Za-z_0-9]+) \|-> (\d+)', t)}


# ------------------------------------------------------------------------------------------
# known findings
# ------------------------------------------------------------------------------------------
def load_known():
    p = os.path.join(VERIF, "known_findings.json")
    if not os.path.exists(p):
        return []
    return json.load(open(p)).get("entries", [])


def match_known(prop, sig):
    """sig: dict describing a violation (op, law, ...).  A `known` entry matches when every
    key of its `match` dict equals the signature's value.  `fixed` entries never match."""
    for e in load_known():
        if e.get("status") != "known" or e.get("property") != prop:
            continue
        if all(str(sig.get(k)) == str(v) for k, v in e.get("match", {}).items()):
            return e
    return None


# ------------------------------------------------------------------------------------------
# evidence + verdict
# ------------------------------------------------------------------------------------------
def write_evidence(prop, tier, seed, level, coverage, assumptions, wall, violations):
    os.makedirs(EVID, exist_ok=True)
    ev = {
        "property_id": prop,
        "tier": tier,
        "seed": seed,
        "level": level,
        "coverage": coverage,
        "assumptions": assumptions,
        "wall_s": round(wall, 2),
        "violations": violations,
    }
    tmp = os.path.join(EVID, prop + ".json.tmp")
    json.dump(ev, open(tmp, "w"), indent=1)
    os.replace(tmp, os.path.join(EVID, prop + ".json"))


def save_replay(prop, name, payload):
    os.makedirs(REPLAYS, exist_ok=True)
    p = os.path.join(REPLAYS, "%s_%s.json" % (prop, name))
    json.dump(payload, open(p, "w"), indent=1)
    return p


def repo_fingerprint():
    h = hashlib.sha256()
    for root, _, files in sorted(os.walk(os.path.join(REPO, "src"))):
        for f in sorted(files):
            h.update(open(os.path.join(root, f), "rb").read())
    h.update(open(os.path.join(REPO, "Cargo.toml"), "rb").read())
    return h.hexdigest()[:16]


# ------------------------------------------------------------------------------------------
# parallel trace validation: a trace is a sequence of independent programs / executions, each
# starting with a reset record; split it at those boundaries and let several single-worker
# TLC processes validate the pieces concurrently
# ------------------------------------------------------------------------------------------
def split_trace(trace, nparts, is_reset):
    lines = open(trace).read().split("\n")
    lines = [ln for ln in lines if ln]
    starts = [i for i, ln in enumerate(lines) if is_reset(ln)]
    if not starts or starts[0] != 0:
        starts = [0] + starts
    nparts = max(1, min(nparts, len(starts)))
    per = (len(lines) + nparts - 1) // nparts
    parts, cur, begin = [], 0, 0
    bounds = []
    for k in range(1, nparts):
        target = k * per
        # first start >= target
        cand = [st for st in starts if st >= target]
        if cand and cand[0] > begin and (not bounds or cand[0] > bounds[-1]):
            bounds.append(cand[0])
    bounds = [0] + bounds + [len(lines)]
    files = []
    for k in range(len(bounds) - 1):
        if bounds[k + 1] <= bounds[k]:
            continue
        pth = "%s.part%d" % (trace, k)
        with open(pth, "w") as f:
            f.write("\n".join(lines[bounds[k]:bounds[k + 1]]) + "\n")
        files.append((pth, bounds[k + 1] - bounds[k]))
    return files


def run_tlc_parallel(module, cfg, trace, tag, is_reset, nparts=8, timeout=3000, heap="3g"):
    """returns (list of tuples from all parts, summed stats, total DONE count). Raises ToolError."""
    import concurrent.futures
    files = split_trace(trace, nparts, is_reset)

    def one(i_f):
        i, (pth, n) = i_f
        rc, out = run_tlc(module, cfg, os.path.join(WORK, "tlc_%s_%d" % (tag, i)), workers=1, env_extra={"TRACE": pth}, timeout=timeout, heap=heap)
        return pth, n, out

    tuples, stats, total = [], {"generated": 0, "distinct": 0, "depth": 0}, 0
    with concurrent.futures.ThreadPoolExecutor(max_workers=len(files)) as ex:
        for pth, n, out in ex.map(one, enumerate(files)):
            ts = tlc_tuples(out)
            done = [t for t in ts if re.match(r'<<\s*"DONE"', t)]
            if not done or tlc_failed(out):
                viol = [t for t in ts if "LAWVIOL" in t[:14]]
                if viol:
                    # the monitor reported violations and then could not evaluate a later, malformed
                    # step of the same (already deviating) execution: the violations stand, the
                    # rest of this part of the trace is not judged
                    log("[tlc] %s: monitor stopped after %d reported violation(s); remaining events of this part not judged" % (os.path.basename(pth), len(viol)))
                    tuples += ts
                    total += n
                    continue
                raise ToolError("TLC did not consume %s:\n%s" % (pth, "\n".join(out.split("\n")[-30:])))
            m = re.match(r'<<\s*"DONE",\s*(\d+)', done[-1])
            if int(m.group(1)) != n:
                raise ToolError("TLC consumed %s of %d events of %s" % (m.group(1), n, pth))
            total += n
            st = tlc_stats(out)
            stats["generated"] += st["generated"]
            stats["distinct"] += st["distinct"]
            stats["depth"] = max(stats["depth"], st["depth"])
            tuples += ts
            os.remove(pth)
    return tuples, stats, total

"""Property dispatch: which engines decide which property, with which emphasis."""
import time
from . import common as C
from . import handles as H

ASSUME_HANDLES = [
    "TLC and the CommunityModules JSON reader are correct",
    "the harness (ledger allocator, projection, interpreter) reports what happened: addresses via as_ptr(), contents via Deref, allocations via the global allocator",
    "abstract-machine UB without an effect observable through addresses, contents, layouts or the allocator (provenance, aliasing) is out of scope",
    "exhaustive statements hold for the constants of the design model; beyond them behaviours are sampled (seeded) and each one is judged by the law module",
]

# generation emphasis per property (profile of the random driver)
EMPH = {"C01": "mixed", "C02": "mixed", "C03": "mixed", "C04": "mut", "C07": "safe", "C08": "mixed", "C13": "contract"}


def handle_check(prop, tier, seed):
    t0 = time.time()
    emph = EMPH.get(prop, "mixed")
    nprog = 250 if tier == "quick" else 3000
    steps = 40 if tier == "quick" else 60
    results = []
    for profile in ("debug", "release"):
        ga = ["--random", "--seed", str(seed * 1000 + (1 if profile == "debug" else 2)), "--nprog", str(nprog), "--steps", str(steps),
              "--maxh", "6" if tier == "quick" else "8", "--maxlen", "12", "--profile", emph]
        results.append(H.run_config("%s_%s_rand" % (prop, profile), profile, ga))
    return H.report(prop, results, tier, seed, t0, assumptions=ASSUME_HANDLES)


def run(prop, tier, seed):
    if prop in H.HANDLE_PROPS:
        return handle_check(prop, tier, seed)
    raise C.ToolError("no check registered for %s" % prop)

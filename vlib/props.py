"""Property dispatch: which engines decide which property, with which emphasis."""
import time
from . import common as C
from . import handles as H
from . import design as D
import os

ASSUME_HANDLES = [
    "TLC and the CommunityModules JSON reader are correct",
    "the harness (ledger allocator, projection, interpreter) reports what happened: addresses via as_ptr(), contents via Deref, allocations via the global allocator",
    "abstract-machine UB without an effect observable through addresses, contents, layouts or the allocator (provenance, aliasing) is out of scope",
    "exhaustive statements hold for the constants of the design model; beyond them behaviours are sampled (seeded) and each one is judged by the law module",
]

# generation emphasis per property (profile of the random driver)
EMPH = {"C01": "mixed", "C02": "mixed", "C03": "mixed", "C04": "mut", "C07": "safe", "C08": "mixed", "C13": "contract"}


# design-model configuration per property: (ops, depth, handles, allocs, maxlen)
def design_cfg(prop, tier):
    if prop == "C04":
        return (D.MUT_OPS, 5 if tier == "quick" else 6, 3, 6, 3)
    return (D.ALL_OPS, 4 if tier == "quick" else 5, 3, 6, 3)


def handle_check(prop, tier, seed):
    t0 = time.time()
    emph = EMPH.get(prop, "mixed")
    nprog = 250 if tier == "quick" else 3000
    steps = 40 if tier == "quick" else 60
    results = []
    # 1. exhaustive TLC check of the design model against the laws + program generation (G)
    ops, depth, handles, allocs, maxlen = design_cfg(prop, tier)
    mc = D.run_model("%s_mc" % prop, depth, handles, allocs, maxlen, ops, sample_k=300 if tier == "quick" else 60, seed=seed,
                     timeout=900 if tier == "quick" else 3000)
    if mc["actions_never_taken"]:
        raise C.ToolError("vacuity: design actions never taken: %s" % mc["actions_never_taken"])
    pf = os.path.join(C.workdir("design"), "%s_programs.ndjson" % prop)
    preds = D.write_programs(mc["programs"], pf, limit=2500 if tier == "quick" else 40000, seed=seed)
    drift_total, compared_total, drift_notes = 0, 0, []
    # 2. replay the generated programs on the real code (G), judge by the laws (V), compare with the design (D)
    for profile in ("debug", "release"):
        r = H.run_config("%s_%s_gen" % (prop, profile), profile, ["--programs", pf])
        compared, drift, notes = D.conformance(r["trace"], preds)
        compared_total += compared
        drift_total += drift
        drift_notes += notes[:2]
        results.append(r)
    if drift_total:
        print("DRIFT property=%s: the code deviates from the design model BytesImpl.tla in %d of %d replayed steps "
              "(not a verdict; the laws still judge every step). First: %s" % (prop, drift_total, compared_total, drift_notes[:1]))
    mcinfo = {k: mc[k] for k in ("distinct", "generated", "depth", "constants", "action_coverage")}
    mcinfo.update({"programs_emitted": len(mc["programs"]), "programs_replayed": len(preds), "conformance_steps": compared_total,
                   "conformance_drift": drift_total, "model_drift": drift_total > 0, "drift_samples": drift_notes[:3]})
    for profile in ("debug", "release"):
        ga = ["--random", "--seed", str(seed * 1000 + (1 if profile == "debug" else 2)), "--nprog", str(nprog), "--steps", str(steps),
              "--maxh", "6" if tier == "quick" else "8", "--maxlen", "12", "--profile", emph]
        results.append(H.run_config("%s_%s_rand" % (prop, profile), profile, ga))
    return H.report(prop, results, tier, seed, t0, assumptions=ASSUME_HANDLES, mc=mcinfo)


def run(prop, tier, seed):
    if prop in H.HANDLE_PROPS:
        return handle_check(prop, tier, seed)
    raise C.ToolError("no check registered for %s" % prop)

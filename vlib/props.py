"""Property dispatch: which engines decide which property, with which emphasis."""
import time
from . import common as C
from . import handles as H
from . import design as D
import os, json

ASSUME_HANDLES = [
    "TLC and the CommunityModules JSON reader are correct",
    "the harness (ledger allocator, projection, interpreter) reports what happened: addresses via as_ptr(), contents via Deref, allocations via the global allocator",
    "abstract-machine UB without an effect observable through addresses, contents, layouts or the allocator (provenance, aliasing) is out of scope",
    "exhaustive statements hold for the constants of the design model; beyond them behaviours are sampled (seeded) and each one is judged by the law module",
]

# generation emphasis per property (profile of the random driver)
EMPH = {"C01": "mixed", "C02": "mixed", "C03": "mixed", "C04": "mut", "C07": "safe", "C08": "mixed", "C13": "contract"}


# design-model configuration per property: (ops, depth, handles, allocs, maxlen)
def design_cfg(prop, tier):
    if prop == "C04":
        return (D.MUT_OPS, 5 if tier == "quick" else 6, 3, 6, 3)
    return (D.ALL_OPS, 4 if tier == "quick" else 5, 3, 6, 3)


def handle_check(prop, tier, seed):
    t0 = time.time()
    emph = EMPH.get(prop, "mixed")
    nprog = 250 if tier == "quick" else 3000
    steps = 40 if tier == "quick" else 60
    results = []
    # 1. exhaustive TLC check of the design model against the laws + program generation (G)
    ops, depth, handles, allocs, maxlen = design_cfg(prop, tier)
    mc = D.run_model("%s_mc" % prop, depth, handles, allocs, maxlen, ops, sample_k=300 if tier == "quick" else 1500, seed=seed,
                     timeout=900 if tier == "quick" else 6000,
                     parities=(0,) if (prop == "C04" and tier == "quick") else (0, 1))
    if mc["actions_never_taken"]:
        raise C.ToolError("vacuity: design actions never taken: %s" % mc["actions_never_taken"])
    pf = os.path.join(C.workdir("design"), "%s_programs.ndjson" % prop)
    preds = D.write_programs(mc["programs"], pf, limit=2500 if tier == "quick" else 40000, seed=seed)
    drift_total, compared_total, drift_notes = 0, 0, []
    # 2. replay the generated programs on the real code (G), judge by the laws (V), compare with the design (D)
    for profile in (("debug", "release", "asan") if prop in ("C02", "C13") else ("debug", "release")):
        r = H.run_config("%s_%s_gen" % (prop, profile), profile, ["--programs", pf])
        compared, drift, notes = D.conformance(r["trace"], preds)
        compared_total += compared
        drift_total += drift
        drift_notes += notes[:2]
        results.append(r)
    if drift_total:
        print("DRIFT property=%s: the code deviates from the design model BytesImpl.tla in %d of %d replayed steps "
              "(not a verdict; the laws still judge every step). First: %s" % (prop, drift_total, compared_total, drift_notes[:1]))
    mcinfo = {k: mc[k] for k in ("distinct", "generated", "depth", "constants", "action_coverage")}
    mcinfo.update({"programs_emitted": len(mc["programs"]), "programs_replayed": len(preds), "conformance_steps": compared_total,
                   "conformance_drift": drift_total, "model_drift": drift_total > 0, "drift_samples": drift_notes[:3]})
    for profile in (("debug", "release", "asan") if prop in ("C02", "C13") else ("debug", "release")):
        ga = ["--random", "--seed", str(seed * 1000 + {"debug": 1, "release": 2, "asan": 3}[profile]), "--nprog", str(nprog), "--steps", str(steps),
              "--maxh", "6" if tier == "quick" else "8", "--maxlen", "12", "--profile", emph]
        results.append(H.run_config("%s_%s_rand" % (prop, profile), profile, ga))
    # buffers of 1-3 KiB (the original-capacity classes of bytes_mut.rs start at 1 KiB; growth, reclaim and
    # copy paths with sizes far from the boundary cases above)
    for profile in (("release",) if tier == "quick" else ("debug", "release")):
        ga = ["--random", "--seed", str(seed * 1000 + 7 + (profile == "debug")), "--nprog", "400" if tier == "quick" else "3000", "--steps", "30",
              "--maxh", "5", "--maxlen", "1500", "--profile", "mixed" if emph == "mut" else emph]
        results.append(H.run_config("%s_%s_large" % (prop, profile), profile, ga))
    extra, rc2 = None, 0
    if prop == "C03":
        # "stays alive as long as any handle can read it ... released exactly once" also under
        # concurrent drops and conversions: recorded interleavings judged by AtomicsMonitor
        # (laws freed_once, no_uaf, copy_after_release)
        from . import threads as T
        from . import atomics as A
        tr = T.run("C03_dfs", T.programs(tier, seed), 25 if tier == "quick" else 100, free_runs=0, random_runs=10 if tier == "quick" else 30, seed=seed)
        rc2, tcov, nh = A.report(prop, [tr], None, T.ordering_table(tr["trace"]), tier, seed, t0, ASSUME_THREADS, evidence=False)
        extra = {"concurrent_part": {k: tcov[k] for k in ("programs", "executions", "evaluations", "distinct_nontrivial", "event_counts", "rule")},
                 "_extra_violations": nh}
        # design level, unbounded: RefCount.tla (proof by tlapm for any number of handles) and the
        # refinement BytesImpl => RefCount per buffer (TLC); BytesImpl is the model replayed above
        from . import refine as RF
        extra["unbounded_release_protocol"] = RF.run(tier)
    if prop in ("C02", "C04"):
        # safe code includes safe trait implementations that misbehave: the same fault schedules
        # as C17, judged for out-of-bounds accesses / wrong frees (C02) and for BytesMut
        # destinations (C04)
        rc2, nh, hcov = hostile_part(prop, tier, seed, profiles=("release", "asan") if prop == "C02" else ("release",), tag=prop + "_hostile")
        extra = {"hostile_part": {k: hcov[k] for k in ("evaluations", "distinct_nontrivial", "fault_schedules_from_model", "builds", "rule")},
                 "_extra_violations": nh}
    if prop == "C02":
        # safe calls made from several threads are safe calls too: the canonical races of the
        # concurrent harness, judged by AtomicsMonitor for accesses to freed blocks, double frees and
        # frees that are not ordered after another thread's accesses (laws no_uaf, freed_once,
        # free_ordered)
        from . import threads as T
        from . import atomics as A
        tp = T.programs("quick", seed)
        tr = T.run("C02_dfs", tp[:60] if tier == "quick" else tp, 20 if tier == "quick" else 60, free_runs=0, random_runs=5 if tier == "quick" else 20, seed=seed)
        rc3, tcov, nh3 = A.report(prop, [tr], None, T.ordering_table(tr["trace"]), tier, seed, t0, ASSUME_THREADS, evidence=False)
        rc2 = max(rc2, rc3)
        extra["concurrent_part"] = {k: tcov[k] for k in ("programs", "executions", "evaluations", "distinct_nontrivial", "event_counts", "rule")}
        extra["_extra_violations"] += nh3
    rc1 = H.report(prop, results, tier, seed, t0, assumptions=ASSUME_HANDLES + (ASSUME_THREADS if prop in ("C02", "C03") else []) +
                   (ASSUME_HOSTILE if prop in ("C02", "C04") else []), mc=mcinfo, extra_cov=extra)
    return max(rc1, rc2)


ASSUME_CURSORS = [
    "TLC and the CommunityModules JSON reader are correct",
    "the cursor harness (vh-buf) reports results and the state of every node faithfully; leaf state is read through the leaf's own public API",
    "host is little-endian (native-endian methods are judged as little-endian; constant NativeLE)",
    "exhaustive statements hold for the generator's bounds (tree depth, leaf lengths, operations per program); beyond them behaviours are seeded samples",
]

BUF_OPS = ["remaining", "has_remaining", "chunk", "fill_buf", "advance", "consume", "copy_to_slice", "copy_to_bytes", "try_copy_to_slice",
           "read", "chunks_vectored", "set_limit", "into_iter", "iter_nth", "advance_at"]
MUT_OPS = ["remaining_mut", "has_remaining_mut", "chunk_mut_len", "put", "put_slice", "put_bytes", "put_buf", "write", "manual", "set_limit", "advance_mut"]


def pick(progs, n, seed):
    import random
    r = random.Random(seed)
    progs = list(progs)
    r.shuffle(progs)
    return progs[:n]


def cursor_check(prop, tier, seed):
    from . import cursors as K
    t0 = time.time()
    q = tier == "quick"
    names = K.method_names()
    getters = [m for m in names if m.startswith("get_") or m.startswith("try_get_")]
    putters = [m for m in names if m.startswith("put_")]
    gens, results = [], []
    design_progs = []

    def gen(tag, side, depth, leaves, maxops, lens, ops, meths, ns, k, simulate=None, take=3000, leaf_types=None, **kw):
        progs, st = K.generate("%s_%s" % (prop, tag), side, depth, leaves, maxops, lens, ops, meths, ns, k, seed, simulate=simulate,
                               timeout=900 if q else 3000, leaf_types=leaf_types, **kw)
        st = dict(st, tag=tag, side=side, mode="simulate" if simulate else "exhaustive", depth=depth, leaves=leaves, maxops=maxops,
                  programs_emitted=len(progs))
        gens.append(st)
        if not progs:
            raise C.ToolError("generator %s emitted no program" % tag)
        results.append(K.run_and_validate("%s_%s" % (prop, tag), pick(progs, take if q else take * 10, seed)))

    allty = ["slice", "bytes", "bytesmut", "deque", "chunked", "cursor"]
    if prop == "C09":
        dm = K.design_mc("C09_design", 2, 2, 1 if q else 2, [0, 2, 3], ["remaining", "chunk", "advance", "chunks_vectored", "copy_to_bytes", "try_copy_to_slice"],
                         [], [0], leaf_types=allty, sample_k=600 if q else 300, seed=seed)
        design_progs = dm.pop("design_programs")
        gens.append(dm)
        gen("bfs", "buf", 1, 2, 2, [0, 3], BUF_OPS, [], [0], 60 if q else 8, take=3000)
        gen("sim", "buf", 3, 4, 3, [0, 1, 3], BUF_OPS, [], [0], 1, simulate=(2500 if q else 40000, 30), take=2500)
        gen("vec17", "buf", 2, 2, 2, [3, 18], ["chunks_vectored", "copy_to_bytes", "advance"], [], [0], 1, simulate=(800 if q else 8000, 30), take=800)
        # Take over chains of several multi-byte chunks with the limit falling inside a later chunk
        gen("takechain", "buf", 3, 3, 1, [2, 3], ["chunks_vectored", "copy_to_bytes", "advance", "remaining", "chunk"], [], [0], 4 if q else 100,
            take=3000, leaf_types=["slice"] if q else ["slice", "deque"], wraps=(), root_limit_only=True)
    elif prop == "C10":
        # (two operations per program with every getter and width is ~10^8 states with the recorded predictions: the
        # thorough tier widens the leaf lengths and the leaf types instead)
        dm = K.design_mc("C10_design", 1, 2, 1, [0, 1, 3, 9] if q else [0, 1, 2, 3, 8, 9, 16, 17], ["get"], getters, list(range(0, 9)),
                         leaf_types=["slice", "deque", "chunked"], wraps=(), sample_k=60 if q else 400, seed=seed,
                         timeout=1500 if q else 4000)
        design_progs = dm.pop("design_programs")
        gens.append(dm)
        gen("bfs", "buf", 1, 2, 1, [0, 1, 9, 17], ["get"], getters, list(range(0, 9)), 400 if q else 40, take=4000)
        # every getter through every forwarding wrapper (&mut B, Box<B>) and Take, on data where byte order matters
        gen("fwd", "buf", 1, 1, 1, [17], ["get"], getters, list(range(0, 9)), 2 if q else 1, take=12000)
        gen("sim", "buf", 3, 3, 3, [1, 3, 9], ["get", "advance"], getters, list(range(0, 9)), 1, simulate=(1500 if q else 30000, 30), take=1500)
    elif prop == "C11":
        dm = K.design_mc("C11_design", 1 if q else 2, 2, 1 if q else 2, [0, 1, 3], ["remaining_mut", "chunk_mut_len", "put_slice", "put", "put_buf"],
                         putters if q else ["put_u8", "put_u16_le", "put_uint", "put_i32", "put_int_le", "put_u64", "put_f32_ne"], [0, 3, 8],
                         leaf_types=["slice", "uninit", "vec", "bytesmut"], wraps=("ref",), side="mut", sample_k=40 if q else 200, seed=seed)
        design_progs = dm.pop("design_programs")
        gens.append(dm)
        gen("bfs", "mut", 1, 2, 1, [0, 1, 3, 9], MUT_OPS, putters, list(range(0, 9)), 100 if q else 10, take=4000)
        gen("sim", "mut", 3, 3, 3, [1, 3, 9], MUT_OPS, putters, list(range(0, 9)), 1, simulate=(1500 if q else 30000, 30), take=1500)
        # growing targets with every small amount of spare capacity, two writes, unsampled (amortised growth hides most size errors)
        gen("grow", "mut", 1, 1, 2, [0, 1, 2, 3], ["put_bytes", "put_slice", "put", "manual", "chunk_mut_len"], ["put_u32"], [0],
            3 if q else 1, take=9000, leaf_types=["vec", "bytesmut"], wraps=("ref",))

    elif prop == "C12":
        dm = K.design_mc("C12_design", 2, 2, 1 if q else 2, [2, 3], ["remaining", "advance", "copy_to_bytes", "chunks_vectored", "try_copy_to_slice"],
                         [], [0], leaf_types=["slice", "deque", "bytes"], wraps=("ref",), sample_k=150 if q else 300, seed=seed, timeout=1500 if q else 5000)
        design_progs = dm.pop("design_programs")
        gens.append(dm)
        gen("bufsim", "buf", 4 if not q else 3, 4, 4, [0, 2, 3], ["advance", "copy_to_slice", "copy_to_bytes", "read", "set_limit", "consume", "remaining", "get", "chunks_vectored", "chunk", "into_iter", "iter_nth", "advance_at"],
            ["get_u16", "get_u8", "try_get_u32_le"], [0], 1, simulate=(2500 if q else 40000, 40), take=2500)
        dms = K.design_mc("C12_sink_design", 2, 2, 1, [0, 1, 3], ["remaining_mut", "chunk_mut_len", "put_slice", "put_buf"], [], [0],
                          leaf_types=["slice", "vec", "bytesmut"], wraps=("ref",), side="mut", sample_k=150 if q else 40, seed=seed)
        design_progs = design_progs + dms.pop("design_programs")
        gens.append(dms)
        gen("mutsim", "mut", 4 if not q else 3, 4, 4, [0, 2, 3], ["put_slice", "write", "set_limit", "remaining_mut", "has_remaining_mut", "put_bytes", "put", "put_buf", "chunk_mut_len", "advance_mut", "manual"],
            ["put_u16", "put_u8", "put_u32_le"], [0], 1, simulate=(2500 if q else 40000, 40), take=2500)
        gen("bfs", "buf", 2, 2, 1 if q else 2, [2], ["advance", "read", "set_limit", "copy_to_bytes"], [], [0], 20 if q else 40, take=2500)
        # the inner buffer is advanced / the limit changed between two reads
        gen("innersim", "buf", 3, 3, 4, [0, 2, 3], ["advance_at", "set_limit", "chunk", "remaining", "advance", "copy_to_bytes", "read", "chunks_vectored"],
            [], [0], 1, simulate=(2500 if q else 40000, 40), take=2500, leaf_types=["slice", "chunked", "deque", "bytes"])
        # every Chain / Limit over fixed and growing leaves (limits inside, at and beyond the room), two operations: fill, then ask
        gen("mutbfs", "mut", 2, 2, 2, [0, 2], ["put_slice", "has_remaining_mut", "remaining_mut", "chunk_mut_len", "advance_mut"], [], [0], 16 if q else 3,
            take=8000, leaf_types=["slice", "vec"], wraps=())
    # the same interpreter under AddressSanitizer on a sample of every family: a read or write past
    # a heap buffer that leaves lengths and contents plausible ends the process there (abort event)
    allp = []
    for r in results:
        allp += pick(r["progs"], (1500 if q else 6000) if r["tag"].endswith("_grow") is False else (4000 if q else 9000), seed)
    results.append(K.run_and_validate("%s_asan" % prop, allp, profile="asan"))
    if design_progs:
        # replay the design model's own programs: G + V, and D (its predictions vs the recorded results)
        dr = K.run_and_validate("%s_designreplay" % prop, pick(design_progs, 6000 if q else 40000, seed))
        steps, drift, notes = K.conformance(dr["progs"], dr["trace"])
        results.append(dr)
        for g in gens:
            if g.get("mode", "").startswith("design model"):
                g.update({"conformance_steps": steps, "conformance_drift": drift, "model_drift": drift > 0, "drift_samples": notes})
        if drift:
            print("DRIFT property=%s: the code deviates from the design model BufTree.tla / SinkTree.tla in %d of %d replayed steps (not a verdict; the laws still "
                  "judge every step). First: %s" % (prop, drift, steps, notes[:1]))
    return K.report(prop, results, gens, tier, seed, t0, ASSUME_CURSORS)


ASSUME_THREADS = [
    "TLC and the CommunityModules JSON reader are correct",
    "the concurrent harness (vh-threads) logs every atomic operation of the crate with the ordering that was passed (patched portable-atomic shim), every allocator event and every harness-level buffer access, in execution order (one model thread runs at a time)",
    "executions are sequentially consistent runs on this machine; weak-memory outcomes (stale relaxed loads) are covered by the design model spec/Atomics.tla instantiated with the orderings extracted from these traces, not by execution",
    "std's Arc used to share one &Bytes between model threads is modelled as one AcqRel read-modify-write per released reference",
    "interleavings are enumerated per program by bounded depth-first search over the scheduling choices at atomic operations and non-atomic accesses",
]


def thread_check(prop, tier, seed):
    from . import threads as T
    from . import atomics as A
    t0 = time.time()
    q = tier == "quick"
    progs = T.programs(tier, seed)
    r = T.run("%s_dfs" % prop, progs, 40 if q else 150, free_runs=0, random_runs=20 if q else 40, seed=seed)
    results = [r]
    # the build without debug assertions executes different code (debug_assert!, overflow checks):
    # the canonical races and a sample of the universe again on the release profile
    results.append(T.run("%s_rel" % prop, progs[:70] if q else progs[:400], 25 if q else 60, free_runs=0, random_runs=10 if q else 20, seed=seed + 1,
                         profile="release"))
    if not q:
        results.append(T.run("%s_free" % prop, progs[:400], 1, free_runs=20))
    table = T.ordering_table(r["trace"])
    mc = A.check_model(prop, table, tier, seed)
    return A.report(prop, results, mc, table, tier, seed, t0, ASSUME_THREADS)


ASSUME_PURE = [
    "TLC and the CommunityModules JSON reader are correct",
    "the harness (vh-pure) calls every impl fully qualified (<L as PartialOrd<R>>::partial_cmp) and records the results faithfully",
]


def pure_check(prop, tier, seed):
    from . import pure as P
    t0 = time.time()
    if prop == "C14":
        res = [P.run_mode(prop, "cmp", tier, seed), P.run_mode(prop, "cmp", tier, seed + 1, profile="release")]
        rule = ("all pairs of byte strings of length <= 3 over {00,61,62,ff} (85^2) plus seeded longer pairs with common prefixes / non-UTF-8, each in "
                "rotating representations of Bytes and BytesMut, evaluated by every PartialEq/PartialOrd/Ord/Hash/Borrow impl in both operand orders; "
                "distinct = distinct (operands' prefix, lengths, representations)")
    else:
        res = [P.run_mode(prop, "fmt", tier, seed), P.run_mode(prop, "fmt", tier, seed + 1, profile="release"), P.run_mode(prop, "serde", tier, seed)]
        rule = ("all 256 single bytes, all pairs over a boundary alphabet (quick) or all 65536 pairs (thorough), seeded longer strings, in rotating "
                "representations: Debug / {:x} / {:X} output decoded by the literal grammar of spec/ByteLit.tla; serde: Serialize and every Visitor "
                "entry point incl. sequences with no / exact / wrong size hints around the 4096 cap")
    return P.report(prop, res, tier, seed, t0, ASSUME_PURE, rule)


ASSUME_RECYCLE = [
    "TLC is correct; the ledger allocator's counters (live bytes, peak, number of align-1 allocations) are exact",
    "spec/Recycle.tla abstracts contents and uses scaled sizes (messages <= 3-4 bytes, buffers <= 40); its reserve transition is the same transcription of reserve_inner as in spec/BytesImpl.tla, which is bound to the code step by step (conformance in C01-C04)",
    "the consumer keeps up: at most a bounded number of bytes stays unconsumed after each round (the premise of the property)",
]


def recycle_check(prop, tier, seed):
    from . import recycle as R
    t0 = time.time()
    mcs = [R.mc("C18_k0", 0, tier), R.mc("C18_k0_scaled", 0, tier, minimal_cap=1, maxmsg=4, caps=(0, 1, 3, 6)), R.mc("C18_k1", 1, tier)]
    if tier != "quick":
        mcs.append(R.mc("C18_k2", 2, tier))
        mcs.append(R.mc("C18_k1_scaled", 1, tier, minimal_cap=1, maxmsg=4, caps=(0, 1, 3, 6)))
    res = R.run_patterns("C18_patterns", R.patterns(tier, seed))
    return R.report(prop, mcs, res, tier, seed, t0, ASSUME_RECYCLE)


ASSUME_CONFIGS = ASSUME_HANDLES + [
    "configurations compared: allocator parity {even, odd} x profile {debug, release} x features {default, no-default-features, extra-platforms via the shim}; the harness itself always uses std, only the bytes crate is built without it",
]


def config_check(prop, tier, seed):
    from . import configs as G
    from . import cursors as K
    t0 = time.time()
    q = tier == "quick"
    # programs: the design model's edge cover sample + a fixed random walk
    ops, depth, handles, allocs, maxlen = design_cfg("C01", "quick")
    mc = D.run_model("C16_mc", depth, handles, allocs, maxlen, ops, sample_k=300, seed=seed)
    pf = os.path.join(C.workdir("design"), "C16_programs.ndjson")
    D.write_programs(mc["programs"], pf, limit=2000 if q else 20000, seed=seed)
    rand = ["--random", "--seed", str(seed * 1000 + 16), "--nprog", "150" if q else "1500", "--steps", "40", "--maxh", "6", "--maxlen", "12",
            "--profile", "contract", "--adjacent-every", "0"]
    cfgs = [("debug", 0, None, False), ("debug", 1, None, False), ("release", 0, None, False), ("release", 1, None, False),
            ("release", 0, None, True), ("release", 1, ["std", "shim"], False)]
    if not q:
        cfgs += [("debug", 1, None, True), ("debug", 0, ["std", "shim"], False), ("release", 1, None, True), ("debug", 0, None, True),
                 ("release", 0, ["std", "shim"], False), ("debug", 1, ["std", "shim"], False)]
    results, comps = [], []
    ref = {}
    for (profile, par, feats, nodef) in cfgs:
        name = "%s_p%d_%s" % (profile, par, "nostd" if nodef else ("shim" if feats else "default"))
        for kind, ga in (("gen", ["--programs", pf]), ("rand", rand)):
            r = H.run_config("C16_%s_%s" % (name, kind), profile, ga + ["--parity", str(par)], features=feats, no_default=nodef)
            r["features"] = ["no-default-features"] if nodef else (feats or ["default"])
            results.append(r)
            if kind not in ref:
                ref[kind] = r
            else:
                comps.append(G.compare("C16_%s_%s_vs_ref" % (name, kind), ref[kind]["trace"], r["trace"]))
    # cursor programs (typed getters incl. nbytes = 0 and sign patterns): debug vs release
    names = K.method_names()
    getters = [m for m in names if m.startswith("get_") or m.startswith("try_get_")]
    progs, st = K.generate("C16_getters", "buf", 1, 2, 1, [0, 1, 9], ["get"], getters, list(range(0, 9)), 400 if q else 40, seed)
    progs = pick(progs, 3000 if q else 30000, seed)
    ca = K.run_and_validate("C16_cur_debug", progs, profile="debug")
    cb = K.run_and_validate("C16_cur_release", progs, profile="release")
    comps.append(G.compare("C16_cur_release_vs_debug", ca["trace"], cb["trace"]))
    # the same for the typed writers (debug assertions, overflow checks and alignment checks exist in one profile only)
    putters = [m for m in names if m.startswith("put_")]
    wprogs, _ = K.generate("C16_putters", "mut", 1, 2, 1, [0, 1, 9], ["put"], putters, list(range(0, 9)), 200 if q else 20, seed)
    wprogs = pick(wprogs, 3000 if q else 30000, seed)
    wa = K.run_and_validate("C16_put_debug", wprogs, profile="debug")
    wb = K.run_and_validate("C16_put_release", wprogs, profile="release")
    comps.append(G.compare("C16_put_release_vs_debug", wa["trace"], wb["trace"]))
    # honest user-defined buffers of (nearly) usize::MAX bytes under the adapters: lengths whose sums overflow.
    # The law module cannot hold such contents, so these programs are only compared between the profiles.
    MX = "max"
    def zeros(n):
        return {"k": "zeros", "n": n}
    def sl(d):
        return {"k": "slice", "d": d}
    huge_trees = [
        {"k": "chain", "a": zeros(MX), "b": zeros(MX)},
        {"k": "chain", "a": zeros({"max": -1}), "b": sl([1, 2, 3])},
        {"k": "chain", "a": sl([1, 2, 3]), "b": zeros(MX)},
        {"k": "take", "limit": MX, "t": {"k": "chain", "a": zeros({"max": -2}), "b": zeros(7)}},
        {"k": "chain", "a": {"k": "chain", "a": zeros(MX), "b": sl([9])}, "b": zeros({"max": -5})},
        {"k": "ref", "t": {"k": "chain", "a": zeros({"max": -3}), "b": zeros(4)}},
        {"k": "chain", "a": {"k": "take", "limit": 5, "t": zeros(MX)}, "b": zeros(MX)},
    ]
    def hop(op, n=0, m=""):
        return {"op": op, "m": m, "n": n, "path": []}
    huge_ops = [[hop("remaining"), hop("has_remaining")], [hop("copy_to_slice", 4), hop("remaining")], [hop("advance", 5), hop("remaining")],
                [hop("chunk"), hop("copy_to_bytes", 3)], [hop("get", 0, "get_u32"), hop("remaining")], [hop("try_copy_to_slice", 6)],
                [hop("advance", MX)], [hop("iter_nth", 2), hop("remaining")]]
    hprogs = [{"side": "buf", "tree": t_, "ops": o_} for t_ in huge_trees for o_ in huge_ops]
    ha = K.run_and_validate("C16_huge_debug", hprogs, profile="debug", validate=False)
    hb = K.run_and_validate("C16_huge_release", hprogs, profile="release", validate=False)
    comps.append(G.compare("C16_huge_release_vs_debug", ha["trace"], hb["trace"]))
    # pure functions (formatting, comparisons): debug vs release
    from . import pure as P
    for mode in ("fmt", "cmp"):
        pa = P.run_mode("C16", mode, tier, seed, profile="debug")
        pb = P.run_mode("C16", mode, tier, seed, profile="release")
        comps.append(G.compare("C16_%s_release_vs_debug" % mode, pa["trace"], pb["trace"]))
    # cursor / sink programs over the surface that exists without std (no reader / writer / chunks_vectored / io::Cursor):
    # the crate built with its default features vs --no-default-features (std-only method overrides, cfg-gated paths)
    STD_ONLY = ('"cursor"', '"read"', '"write"', '"fill_buf"', '"consume"', '"chunks_vectored"')
    bp, _ = K.generate("C16_nostd_buf", "buf", 2, 2, 3, [0, 2, 3], ["remaining", "has_remaining", "chunk", "advance", "copy_to_slice", "copy_to_bytes",
                       "try_copy_to_slice", "set_limit", "into_iter", "iter_nth", "get"], ["get_u16", "try_get_u32_le", "get_u8"], [0], 1, seed,
                       simulate=(1500 if q else 15000, 30), leaf_types=["slice", "bytes", "bytesmut", "deque", "chunked"])
    mp, _ = K.generate("C16_nostd_mut", "mut", 2, 2, 3, [0, 2, 3], ["remaining_mut", "has_remaining_mut", "chunk_mut_len", "put", "put_slice", "put_bytes",
                       "put_buf", "manual", "set_limit", "advance_mut"], ["put_u16", "put_u32_le"], [0], 1, seed,
                       simulate=(800 if q else 8000, 30), leaf_types=["slice", "uninit", "vec", "bytesmut"])
    np_ = [p for p in bp + mp if not any(s in json.dumps({"t": p["tree"], "o": p["ops"]}) for s in STD_ONLY)]
    if len(np_) < 100:
        raise C.ToolError("only %d cursor programs without std-only operations" % len(np_))
    na = K.run_and_validate("C16_cur_std", np_, profile="release")
    nb = K.run_and_validate("C16_cur_nostd", np_, profile="release", no_default=True)
    comps.append(G.compare("C16_cur_nostd_vs_std", na["trace"], nb["trace"]))
    # verdict: any diverging program
    rc = 0
    nnew = 0
    shown = 0
    for c in comps:
        for v in c["violations"]:
            nnew += 1
            if shown >= 5:
                continue
            shown += 1
            path = C.save_replay(prop, "%s_p%d" % (c["tag"], v["pid"]), {"property": prop, "kind": "configs", "comparison": c["tag"], "pid": v["pid"],
                                                                         "first_diverging_event": v["i"], "op": v["op"], "zip": c["zip"]})
            print("VIOLATION property=%s replay=%s" % (prop, path))
            print("  law cfg_equal: configurations diverge at event %d (%s) of program %d in %s" % (v["i"], v["op"], v["pid"], c["tag"]))
            rc = 1
    # each trace must also satisfy the laws on its own (reported under the owning property by its own check; here only counted)
    own = sum(len(r["violations"]) for r in results)
    cov = {
        "states": mc["distinct"] + sum(c["tlc"]["distinct"] for c in comps),
        "transitions": mc["generated"] + sum(c["tlc"]["generated"] for c in comps),
        "traces_validated_against_impl": len(results) + 2,
        "samples": [{"comparison": c["tag"], "steps": c["steps"], "diverging_programs": len(c["violations"])} for c in comps[:4]],
        "evaluations": sum(c["steps"] for c in comps),
        "distinct_nontrivial": len(comps) * 2,
        "rule": "one evaluation = one step of one program compared between two configurations by spec/ConfigEquiv.tla (projection: operation, outcome, "
                "returned values, per live handle type/length/contents/is_unique); distinct = configurations paired with the reference",
        "configurations": [{"tag": r["tag"], "profile": r["profile"], "features": r["features"], "programs": r["programs"], "events": r["events"],
                            "law_violating_events": len(r["violations"])} for r in results],
        "law_violations_in_single_traces": own,
        "design_model": {k: mc[k] for k in ("distinct", "generated", "depth")},
        "exhaustive": False,
    }
    C.write_evidence(prop, tier, seed, "model_checking", cov, ASSUME_CONFIGS, time.time() - t0, nnew)
    return rc


ASSUME_HOSTILE = [
    "TLC is correct; the ledger allocator (red zones, poison, exact-free check), the guard bytes around fixed destinations and the process exit status are the observers: an out-of-bounds READ is seen only if the bytes it returns reach the output (the script buffer's backing data ends at a red zone)",
    "the hostile objects are ScriptBuf (answers per call from the script, honest and empty afterwards, cut off after 200 extra polls), iterators with arbitrary size hints, and AsRef owners that answer differently per call or panic",
]


def hostile_part(prop, tier, seed, profiles=("release", "debug", "asan"), tag="C17"):
    """fault schedules from spec/Hostile.tla + scripted environment objects played against the
    real consumers, judged by spec/HostileTrace.tla.  Returns (rc, #violations, coverage)."""
    from . import hostile as X
    q = tier == "quick"
    scripts, st = X.model("%s_model" % tag, 5 if q else 8, 4 if q else 6, seed)
    cs = X.cases(scripts, seed, 2500 if q else 60000)
    results = [X.run("%s_%s" % (tag, pr), cs, pr) for pr in profiles]
    rc, nnew, shown = 0, 0, set()
    for r in results:
        for v in r["violations"]:
            laws = [l for (p, l) in v["laws"] if p == prop]
            if not laws:
                continue
            nnew += 1
            key = (v["consumer"], tuple(laws))
            if key in shown or len(shown) >= 5:
                continue
            shown.add(key)
            case = r["cases"][v["pid"]]
            path = C.save_replay(prop, "%s_c%d" % (r["tag"], v["pid"]), {"property": prop, "kind": "hostile", "laws": laws, "case": case, "profile": r["profile"]})
            print("VIOLATION property=%s replay=%s" % (prop, path))
            print("  law(s) %s violated by consumer %s with script %s (n=%s d=%s), build %s" % (",".join(laws), v["consumer"], json.dumps(case["script"])[:200], case["n"], case["d"], r["profile"]))
            rc = 1
    counts = {}
    for r in results:
        for k, n in r["counts"].items():
            counts[k] = counts.get(k, 0) + n
    cov = {
        "evaluations": sum(r["events"] for r in results),
        "distinct_nontrivial": len({(c["consumer"], json.dumps(c["script"]), c["n"], c["d"]) for c in cs}),
        "rule": "one evaluation = one crate entry point driven with one fault schedule (script of lying / panicking remaining()/chunk()/advance()/"
                "chunks_vectored() answers enumerated by TLC from spec/Hostile.tla, free-form scripts, or a lying / panicking size hint, iterator or "
                "owner) in one build; distinct = distinct (consumer, script, sizes)",
        "samples": [{"consumer": c["consumer"], "script": c["script"], "n": c["n"], "d": c["d"]} for c in cs[-3:]],
        "states": st["distinct"], "transitions": st["generated"],
        "fault_schedules_from_model": len(scripts),
        "consumer_and_outcome_counts": counts,
        "crashes_isolated": sum(r["crashes"] for r in results),
        "builds": list(profiles),
        "exhaustive": False,
    }
    return rc, nnew, cov


def hostile_check(prop, tier, seed):
    t0 = time.time()
    rc, nnew, cov = hostile_part(prop, tier, seed)
    C.write_evidence(prop, tier, seed, "fault_enumeration", cov, ASSUME_HOSTILE, time.time() - t0, nnew)
    return rc


def run(prop, tier, seed):
    if prop == "C17":
        return hostile_check(prop, tier, seed)
    if prop == "C16":
        return config_check(prop, tier, seed)
    if prop == "C18":
        return recycle_check(prop, tier, seed)
    if prop in ("C14", "C15"):
        return pure_check(prop, tier, seed)
    if prop in ("C05", "C06"):
        return thread_check(prop, tier, seed)
    if prop in ("C09", "C10", "C11", "C12"):
        return cursor_check(prop, tier, seed)
    if prop in H.HANDLE_PROPS:
        return handle_check(prop, tier, seed)
    raise C.ToolError("no check registered for %s" % prop)

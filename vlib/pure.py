"""Pure-function checks C14 / C15: results recorded by harness/vh-pure are judged by TLC
against spec/Compare.tla (lexicographic order) and spec/ByteLit.tla (literal decoder)."""
import json, os, re, subprocess, time
from . import common as C


def run_mode(prop, mode, tier, seed, profile="debug"):
    binp = C.build("vh-pure", profile=profile)
    wd = C.workdir("pure")
    trace = os.path.join(wd, "%s_%s_%s.ndjson" % (prop, mode, profile))
    args = [binp, mode, trace, str(seed)] + (["thorough"] if tier != "quick" else [])
    t0 = time.time()
    try:
        r = subprocess.run(args, stdout=subprocess.PIPE, stderr=subprocess.PIPE, timeout=300 if tier == "quick" else 1800)
    except subprocess.TimeoutExpired:
        # a call that does not return (the whole run normally takes seconds): the case in progress is
        # reported like a crash
        class _R:
            returncode, stderr = -9, b"timeout"
        r = _R()
    if r.returncode != 0:
        # the process died inside the code under test: the case in progress (side file) becomes a
        # `crash` record behind the complete records written so far
        ip = trace + ".intent"
        crash = open(ip).read().strip() if os.path.exists(ip) else ""
        if not (crash.startswith("{") and crash.endswith("}")) or not os.path.exists(trace):
            raise C.ToolError("vh-pure %s failed: %s" % (mode, r.stderr.decode()[-300:]))
        lines = [ln for ln in open(trace, errors="replace").read().split("\n") if ln.startswith("{") and ln.endswith("}")]
        with open(trace, "w") as f:
            f.write("\n".join(lines + [crash]) + "\n")
        C.log("[pure] %s %s: the process died (rc=%s) after %d records" % (mode, profile, r.returncode, len(lines)))
    n = sum(1 for _ in open(trace))
    t1 = time.time()
    rc, out = C.run_tlc("PureTrace", "PureTrace.cfg", os.path.join(C.WORK, "tlc_pure_" + mode), workers=1, env_extra={"TRACE": trace},
                        timeout=3000, heap="8g")
    tuples = C.tlc_tuples(out)
    done = [t for t in tuples if re.match(r'<<\s*"DONE"', t)]
    if not done or C.tlc_failed(out):
        raise C.ToolError("TLC did not consume %s:\n%s" % (trace, "\n".join(out.split("\n")[-30:])))
    m = re.match(r'<<\s*"DONE",\s*(\d+),\s*(\d+)', done[-1])
    if int(m.group(1)) != n:
        raise C.ToolError("TLC consumed %s of %d events" % (m.group(1), n))
    viols = []
    for t in tuples:
        mm = re.match(r'<<\s*"LAWVIOL",\s*(\d+),\s*(-?\d+),\s*"([^"]*)",\s*\{(.*)\}\s*>>', t)
        if mm:
            viols.append({"line": int(mm.group(1)), "k": mm.group(3), "laws": re.findall(r'<<\s*"([^"]+)",\s*"([^"]+)"\s*>>', mm.group(4))})
    st = C.tlc_stats(out)
    C.log("[pure] %s %s %s: %d events, %d violating; run %.1fs, TLC %.1fs" % (prop, mode, profile, n, len(viols), t1 - t0, time.time() - t1))
    return {"mode": mode, "profile": profile, "trace": trace, "events": n, "violations": viols, "tlc": st}


def line_of(trace, n):
    for i, ln in enumerate(open(trace), 1):
        if i == n:
            return json.loads(ln)
    return {}


def distinct(trace):
    seen = set()
    for ln in open(trace):
        e = json.loads(ln)
        if e["k"] in ("panic", "crash"):
            seen.add(("panic", len(e["l"]), len(e["r"])))
        elif e["k"] == "cmp":
            seen.add((len(e["l"]), len(e["r"]), tuple(e["l"][:3]), tuple(e["r"][:3]), e["reps"]))
        elif e["k"] == "fmt":
            seen.add((e["ty"], e["rep"], tuple(e["d"][:3]), len(e["d"])))
        else:
            seen.add((e["ty"], e["entry"], len(e["d"]), tuple(e["d"][:2])))
    return len(seen)


def report(prop, results, tier, seed, t0, assumptions, rule):
    rc = 0
    shown = set()
    nnew = 0
    for r in results:
        for v in r["violations"]:
            laws = [l for (p, l) in v["laws"] if p == prop]
            if not laws:
                continue
            known = [C.match_known(prop, {"law": l}) for l in laws]
            new = [l for l, k in zip(laws, known) if not k]
            for k in known:
                if k and ("known", k.get("what")) not in shown:
                    shown.add(("known", k.get("what")))
                    print("KNOWN-FINDING: property=%s %s" % (prop, k.get("what", "")))
            if not new:
                continue
            nnew += 1
            key = tuple(sorted(new))
            if key in shown or len([s for s in shown if s and s[0] != "known"]) >= 5:
                continue
            shown.add(key)
            ev = line_of(r["trace"], v["line"])
            path = C.save_replay(prop, "%s_%s_l%d" % (r["mode"], r["profile"], v["line"]), {"property": prop, "kind": "pure", "mode": r["mode"],
                                                                                          "laws": new, "event": ev, "seed": seed})
            print("VIOLATION property=%s replay=%s" % (prop, path))
            print("  law(s) %s violated by recorded result %s" % (",".join(new), json.dumps({k: ev.get(k) for k in ("l", "r", "d", "ty", "entry", "rep", "reps") if k in ev})[:300]))
            rc = 1
    sample = []
    if results:
        for i, ln in enumerate(open(results[0]["trace"])):
            if i in (5, 100):
                e = json.loads(ln)
                sample.append({k: (v if not isinstance(v, list) or len(v) < 12 else v[:12]) for k, v in e.items()})
    cov = {
        "states": sum(r["tlc"]["distinct"] for r in results),
        "transitions": sum(r["tlc"]["generated"] for r in results),
        "traces_validated_against_impl": len(results),
        "samples": sample,
        "evaluations": sum(r["events"] for r in results),
        "distinct_nontrivial": sum(distinct(r["trace"]) for r in results),
        "rule": rule,
        "runs": [{"mode": r["mode"], "profile": r["profile"], "events": r["events"], "violating": len(r["violations"])} for r in results],
        "explanation": "oracle-only use of the specification: the state space is trivial (one state per recorded result); the TLA+ module is the "
                       "executable definition of the expected answer over an exhaustively enumerated small universe plus seeded longer inputs",
        "exhaustive": False,
    }
    C.write_evidence(prop, tier, seed, "model_checking", cov, assumptions, time.time() - t0, nnew)
    return rc

"""C05/C06 reporting and the design-model step (spec/Atomics.tla instantiated with the
ordering table extracted from the recorded traces)."""
import json, os, re, time
from . import common as C
from . import threads as T


def check_model(prop, table, tier, seed):
    """placeholder until Atomics.tla is wired in: returns None (no design-model claim)"""
    try:
        from . import atomics_model as M
    except ImportError:
        return None
    return M.run(prop, table, tier, seed)


def report(prop, results, mc, table, tier, seed, t0, assumptions, evidence=True):
    hits = []
    for r in results:
        for v in r["violations"]:
            laws = [l for (p, l) in v["laws"] if p == prop]
            if laws:
                hits.append((r, v, laws))
    rc = 0
    shown = set()
    for (r, v, laws) in hits:
        key = (json.dumps(r["progs"][v["pid"]]["init"], sort_keys=True), tuple(sorted(laws)))
        if key in shown or len(shown) >= 5:
            continue
        shown.add(key)
        evs = T.execution(r["trace"], v["pid"], v["run"])
        path = C.save_replay(prop, "%s_p%d_r%d" % (r["tag"], v["pid"], v["run"]),
                             {"property": prop, "kind": "threads", "laws": laws, "program": r["progs"][v["pid"]], "execution": v["run"],
                              "events": [e for e in evs if e["k"] not in ("op_end",)]})
        print("VIOLATION property=%s replay=%s" % (prop, path))
        print("  law(s) %s violated in execution %d of program %d (%s) at a `%s` event" % (",".join(laws), v["run"], v["pid"],
                                                                                           json.dumps(r["progs"][v["pid"]]["init"]), v["k"]))
        rc = 1
    if mc and mc.get("violations"):
        for mv in mc["violations"]:
            if mv["property"] != prop:
                continue
            mv["confirmed"] = bool(hits)
            path = C.save_replay(prop, "model_%s" % mv["name"], mv)
            if hits:
                print("  (also: the design model Atomics.tla instantiated with the code's orderings violates %s for %s: %s)" % (mv["invariant"], mv["name"], path))
            else:
                # verdict rule (b) of DESIGN.md 2.3: a model counterexample alone is not a verdict
                print("UNCONFIRMED-MODEL-FINDING property=%s: Atomics.tla with the code's orderings violates %s for %s, but no recorded "
                      "execution shows it (details: %s)" % (prop, mv["invariant"], mv["name"], path))
    counts = {}
    for r in results:
        for k, n in r["counts"].items():
            counts[k] = counts.get(k, 0) + n
    sample = []
    if results:
        r = results[0]
        evs = T.execution(r["trace"], 0, 0)
        sample = [{"program": r["progs"][0], "first_events": [[e["t"], e["k"], e["op"], e["ord"], e["site"]] for e in evs if e["k"] in ("atomic", "read", "write", "free", "excl")][:14]}]
    distinct = set()
    for r in results:
        for ln in open(r["trace"]):
            if '"k":"atomic"' in ln:
                e = json.loads(ln)
                distinct.add((e["site"], e["op"], e["ord"], e["old"] if e["note"] == "cnt" else e["old"] // 100000, e["ok"]))
    cov = {
        "states": sum(r["tlc"]["distinct"] for r in results) + (mc["distinct"] if mc else 0),
        "transitions": sum(r["tlc"]["generated"] for r in results) + (mc["generated"] if mc else 0),
        "traces_validated_against_impl": sum(r["executions"] for r in results),
        "samples": sample,
        "evaluations": sum(r["events"] for r in results),
        "distinct_nontrivial": len(distinct),
        "rule": "one evaluation = one logged event of a recorded concurrent execution judged by spec/AtomicsMonitor.tla; distinct = distinct "
                "(atomic site, operation, ordering, value read, success) combinations observed",
        "programs": sum(r["programs"] for r in results),
        "executions": sum(r["executions"] for r in results),
        "ordering_table": table,
        "event_counts": counts,
        "exhaustive": False,
    }
    if mc:
        cov["design_model"] = {k: v for k, v in mc.items() if k != "violations"}
    if not evidence:
        return rc, cov, len(hits)
    C.write_evidence(prop, tier, seed, "model_checking", cov, assumptions, time.time() - t0, len(hits))
    return rc
